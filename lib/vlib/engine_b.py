"""Engine B (shapegen): generated programs (trait shapes, patterns, return types) with generator-side expectations."""
import hashlib
import json
import os
import random
import shutil
import sys
import time
from concurrent.futures import ThreadPoolExecutor

from . import common

sys.path.insert(0, os.path.join(common.ROOT, "gen"))
import shapegen as sg  # noqa: E402

PROPERTIES = ["C05", "C06", "C15", "C16", "C17", "C19"]

FEATURES = ("std",)


def _env():
    env = common.base_env()
    # generated programs use only the public API: no hooks needed, but harmless
    return env


def build_and_run(ctx, tag, modules, features=FEATURES, extra_deps="", per_crate=70, max_parallel=8,
                  main_extra="", extra_files=None):
    """modules: list of (idx, text). Returns (events_by_idx, compile_errors_by_idx, stats)."""
    base = os.path.join(common.OUT, "shapegen", ctx.prop, tag)
    if os.path.exists(base):
        shutil.rmtree(base)
    os.makedirs(base, exist_ok=True)
    chunks = [modules[i:i + per_crate] for i in range(0, len(modules), per_crate)]
    results = [None] * len(chunks)
    t0 = time.time()

    def work(k):
        chunk = chunks[k]
        d = os.path.join(base, f"crate_{k}")
        tdir = os.path.join(common.TARGET, "shapegen", f"slot_{k % max_parallel}")
        mods = [(f"s_{idx}", text) for idx, text in chunk]
        errors_by_idx = {}
        for attempt in range(3):
            sg.write_crate(d, f"shapes_{k}", mods, features=features, extra_deps=extra_deps, main_extra=main_extra,
                           extra_files=extra_files)
            ok, errors, exe, tail = sg.build_crate(d, tdir, _env())
            if ok:
                break
            bad = set()
            unknown = []
            for fname, msgs in errors.items():
                if fname.startswith("s_") and fname.endswith(".rs"):
                    idx = int(fname[2:-3])
                    bad.add(idx)
                    errors_by_idx.setdefault(idx, []).extend(msgs[:3])
                else:
                    unknown.append((fname, msgs[:2]))
            if unknown or not bad:
                return {"fatal": f"build failed outside of shape modules: {unknown or tail[-500:]}"}
            mods = [(n, t) for n, t in mods if int(n[2:]) not in bad]
        else:
            return {"fatal": "build still failing after removing the offending shapes"}
        rc, events, err = sg.run_crate(exe, _env())
        if rc != 0:
            return {"fatal": f"generated program exited with {rc}: {err[-500:]}", "errors": errors_by_idx}
        return {"events": events, "errors": errors_by_idx}

    # slots share target dirs: crates mapped to the same slot must not build concurrently
    def slot_worker(slot):
        for k in range(slot, len(chunks), max_parallel):
            results[k] = work(k)

    with ThreadPoolExecutor(max_workers=max_parallel) as ex:
        list(ex.map(slot_worker, range(min(max_parallel, len(chunks)))))

    events_by_idx, errors_by_idx = {}, {}
    for r in results:
        if r is None:
            continue
        if "fatal" in r:
            raise common.Inconclusive(r["fatal"])
        for e in r["events"]:
            events_by_idx.setdefault(e["s"], []).append(e)
        errors_by_idx.update(r["errors"])
    return events_by_idx, errors_by_idx, {"crates": len(chunks), "build_and_run_s": round(time.time() - t0, 1)}


def select_shapes(ctx, core, n_core, n_random, mode_ok=lambda s: True):
    rng = random.Random(ctx.seed * 7919 + 13)
    core = [s for s in core if mode_ok(s)]
    # shapes marked "always" (regression shapes for faults that need one exact shape) survive every sampling
    must = [s for s in core if s.extra.get("always")]
    if n_core < len(core):
        core = [s for s in core if not s.extra.get("always")]
        n_core = max(1, n_core - len(must))
        # stratified: keep every k-th with a seed-dependent offset, plus a random fill
        step = len(core) / n_core
        off = rng.random() * step
        picked = [core[int(off + i * step) % len(core)] for i in range(n_core)]
        picked = must + picked
    else:
        picked = list(core)
    seen = {s.key() for s in picked}
    tries = 0
    while n_random > 0 and tries < n_random * 50:
        tries += 1
        s = sg.random_shape(rng)
        if s.key() in seen or not mode_ok(s):
            continue
        seen.add(s.key())
        picked.append(s)
        n_random -= 1
    return picked


def shape_features(shapes):
    f = {}

    def bump(k):
        f[k] = f.get(k, 0) + 1
    for s in shapes:
        bump("receiver_" + s.receiver)
        bump("arity_%d" % len(s.params))
        bump("ret_" + s.ret)
        bump("async_" + s.asyncness)
        bump("api_" + s.api)
        for p in set(s.params):
            bump("param_" + p)
    return f


BUDGET = {"quick": dict(core=260, rand=60), "thorough": dict(core=10_000, rand=2600)}


def run_c05(ctx):
    b = BUDGET[ctx.tier]
    shapes = select_shapes(ctx, sg.core_shapes_forward(), b["core"], b["rand"])
    modules, exps = [], {}
    for i, s in enumerate(shapes):
        text, exp = sg.render_forward(s, i)
        modules.append((i, text))
        exps[i] = exp
    events, errors, st = build_and_run(ctx, "forward", modules)
    checked = 0
    for i, s in enumerate(shapes):
        if i in errors:
            ctx.violation(f"shapegen:forward:expansion-error:{s.key()}", {
                "what": "a trait shape of the calibrated grammar no longer compiles under #[unimock]",
                "at": f"shape {i}", "case": s.key(), "expected": "the expansion type-checks",
                "observed": "; ".join(errors[i])[:800]})
            continue
        why = sg.check_forward(exps[i], events.get(i, []))
        checked += 1
        if why:
            ctx.violation(f"shapegen:forward:{s.key()}", {
                "what": why, "at": f"shape {i}", "case": s.key(),
                "expected": json.dumps({k: exps[i][k] for k in ("caller", "matcher", "answer", "result", "after")}),
                "observed": json.dumps(events.get(i, []))[:1500],
                "replay_cmd": f"out/shapegen/{ctx.prop}/forward/crate_*/ (module s_{i}); rebuild with ./check {ctx.prop}"})
    feats = shape_features(shapes)
    for r in sg.RECEIVERS:
        ctx.require(feats.get("receiver_" + r, 0) > 0, f"no shape with receiver {r}")
    for a in sg.ASYNCS:
        ctx.require(feats.get("async_" + a, 0) > 0, f"no shape with async form {a}")
    for k in sg.KINDS:
        ctx.require(feats.get("param_" + k, 0) > 0, f"no shape with parameter kind {k}")
    for a in range(0, 6):
        ctx.require(feats.get("arity_%d" % a, 0) > 0, f"no shape of arity {a}")
    n_events = sum(len(v) for v in events.values())
    ctx.coverage.update({
        "evaluations": checked,
        "distinct_nontrivial": len({s.key() for s in shapes if len(s.params) >= 1 or s.ret != "unit"}),
        "rule": "a case is one generated trait (receiver x arity 0-5 x 18 parameter kinds x 9 return kinds x sync / "
                "async fn / #[async_trait] / -> impl Future x module or flattened api) with a driver passing pairwise "
                "distinct values; the caller, the input matcher and the answer function log probes and addresses, "
                "which must agree position by position; &mut mutations must reach the caller; async: nothing before "
                "the first poll, one evaluation per await, nothing for a future dropped unpolled. Core set (pairwise "
                "style) sampled with a seed-dependent stride + random shapes. non-trivial = at least one parameter or "
                "a non-unit result; distinct by shape key.",
        "samples": [exps[i]["shape"] for i in list(exps)[:3]],
        "events_observed": n_events,
        "shape_features": feats,
        "programs": len(shapes),
        "compile_errors": len(errors),
        **st,
        "exhaustive": False,
    })
    ctx.assumptions += [
        "the grammar is calibrated to what the pinned macro accepts (gen/shapegen.py `supported`); shapes outside it "
        "are out of scope by the property's wording",
        "types come from a fixed catalogue (gen/shapegen.py KINDS)",
    ]


def setup():
    # warm the shared target dirs
    class Dummy:
        prop = "C05"
        seed = 1
    try:
        s = sg.core_shapes_forward()[:2]
        mods = []
        for i, sh in enumerate(s):
            t, _ = sg.render_forward(sh, i)
            mods.append((i, t))
        for slot in range(4):
            d = os.path.join(common.OUT, "shapegen", "_warm", f"crate_{slot}")
            sg.write_crate(d, f"warm_{slot}", [(f"s_{i}", t) for i, t in mods])
            sg.build_crate(d, os.path.join(common.TARGET, "shapegen", f"slot_{slot}"), _env())
    except Exception as e:  # warming is best effort
        print(f"setup: shapegen warm-up skipped: {e}")


def run(ctx):
    if ctx.prop == "C05":
        return run_c05(ctx)
    from . import engine_b_more
    return engine_b_more.run(ctx)


def replay(prop, path):
    with open(path) as f:
        v = json.load(f)
    print(json.dumps(v, indent=1))
    print("The generated crate of this run is under /verif/out/shapegen/%s/; re-run ./check %s to regenerate." % (prop, prop))
    return 0
