"""C20: bundled std/core/tokio/futures/embedded-hal mirrors vs hand-written impls (differential script replay)."""
import json
import os
import re
import subprocess

from . import common

PROPERTIES = ["C20"]


def setup():
    common.build_harness("std", bins=["mirrors"])


def mirrored_methods():
    """Parse src/mock/*.rs: every method of every mirrored trait (so that a newly mirrored method without a driver
    shows up as uncovered)."""
    out = []
    base = "/repo/src/mock"
    for fname in sorted(os.listdir(base)):
        if not fname.endswith(".rs") or fname == "mod.rs":
            continue
        text = "\n".join(l for l in open(os.path.join(base, fname)).read().splitlines()
                         if not l.strip().startswith("//"))
        prefix = {"tokio_1.rs": "tokio::", "futures_0_3.rs": "futures::"}.get(fname, "")
        for m in re.finditer(r"#\[unimock\([^\]]*mirror\s*=\s*([\w:]+)[^\]]*\)\]\s*pub trait (\w+)[^{]*\{", text):
            trait = m.group(2)
            # body up to the matching brace
            i = m.end()
            depth = 1
            while depth and i < len(text):
                depth += {"{": 1, "}": -1}.get(text[i], 0)
                i += 1
            body = text[m.end():i]
            for f in re.finditer(r"\bfn\s+(\w+)", body):
                out.append(f"{prefix}{trait}::{f.group(1)}")
    return out


def run(ctx):
    bindir, build_s = common.build_harness("std", bins=["mirrors"])
    cases = 4000 if ctx.tier == "quick" else 150_000
    try:
        r = subprocess.run([os.path.join(bindir, "mirrors"), "--cases", str(cases), "--seed", str(ctx.seed)],
                           env=common.base_env(), stdout=subprocess.PIPE, stderr=subprocess.DEVNULL, text=True,
                           timeout=3600)
    except subprocess.TimeoutExpired:
        raise common.Inconclusive("mirrors exceeded the 3600 s watchdog")
    summary = None
    for line in r.stdout.splitlines():
        if line.startswith("VIOLATION_CASE "):
            v = json.loads(line.split(" ", 1)[1])
            ctx.violation(f"mirrors:{v['family']}:{v['what'].split(':')[0]}", {
                "what": v["what"], "at": f"family {v['family']} case {v['index']}", "case": f"{v['family']} seed={v['seed']} index={v['index']}",
                "expected": "plain struct and Unimock agree on results, required-method call sequence and written bytes",
                "observed": v["what"][:1200]})
        elif line.startswith("SUMMARY "):
            summary = json.loads(line.split(" ", 1)[1])
    if summary is None:
        raise common.Inconclusive(f"mirrors produced no summary (exit {r.returncode})")
    mirrored = mirrored_methods()
    covered = set(summary["covered"])
    # Error::kind / std Error::source / Termination are not script-driven
    uncovered = [m for m in mirrored if m not in covered]
    ctx.require(summary["evaluations"] > 0 and summary["required_calls_logged"] > 0, "no differential run happened")
    ctx.require(len(covered) >= 80, f"only {len(covered)} mirrored methods are driven")
    ctx.coverage.update({
        "evaluations": summary["evaluations"],
        "distinct_nontrivial": summary["distinct_nontrivial"],
        "rule": "an evaluation = one random script (0-12 steps: chunk sizes incl. 0 and short ones, Interrupted, other "
                "errors, EOF, Pending; random payload/data) replayed by a plain struct implementing the upstream trait's "
                "required methods and by a Unimock (strict on even, partial on odd cases) whose required methods are "
                "answered by the same replay functions, while 1-5 upstream methods (mostly provided ones: write_all, "
                "write!, write_vectored, read_exact, read_to_end, read_to_string, read_vectored, read_until, read_line, "
                "rewind, stream_position, Hasher::write_*, Hash::hash, format! flags, delay_us/ms, set_state, toggle, "
                "I2c/SpiDevice helpers, PWM helpers, poll_*_vectored, is_write_vectored) are driven on both; results, "
                "buffers and the logged required-method call sequence must be identical. distinct = distinct call "
                "sequences with >= 2 required calls.",
        "samples": summary["samples"],
        "required_method_calls_observed": summary["required_calls_logged"],
        "per_family": summary["per_family"],
        "mirrored_methods": len(mirrored),
        "mirrored_methods_driven": len([m for m in mirrored if m in covered]),
        "mirrored_methods_without_driver": uncovered,
        "build_s": round(build_s, 1),
        "exhaustive": False,
    })
    ctx.assumptions += ["the plain structs implement only the required methods, so upstream default bodies run on them",
                        "Error::kind, std::error::Error::source and Termination::report have no script driver "
                        "(Termination is covered by C09)"]


def family_stage(ctx, family, cases):
    """One family of the differential as a stage of another property's check (violations are reported under ctx)."""
    bindir, _ = common.build_harness("std", bins=["mirrors"])
    try:
        r = subprocess.run([os.path.join(bindir, "mirrors"), "--cases", str(cases), "--seed", str(ctx.seed),
                            "--family", family], env=common.base_env(), stdout=subprocess.PIPE,
                           stderr=subprocess.DEVNULL, text=True, timeout=1800)
    except subprocess.TimeoutExpired:
        raise common.Inconclusive("mirrors stage exceeded the 1800 s watchdog")
    summary = None
    for line in r.stdout.splitlines():
        if line.startswith("VIOLATION_CASE "):
            v = json.loads(line.split(" ", 1)[1])
            ctx.violation(f"mirrors:{v['family']}:{v['what'].split(':')[0]}", {
                "what": v["what"], "at": f"family {v['family']} case {v['index']}",
                "case": f"{v['family']} seed={v['seed']} index={v['index']}",
                "expected": "plain struct and Unimock agree on results and on the required-method call sequence",
                "observed": v["what"][:1200]})
        elif line.startswith("SUMMARY "):
            summary = json.loads(line.split(" ", 1)[1])
    if summary is None:
        raise common.Inconclusive(f"mirrors stage produced no summary (exit {r.returncode})")
    ctx.require(summary["evaluations"] > 0 and summary["required_calls_logged"] > 0,
                f"mirrors stage {family}: nothing was driven")
    ctx.coverage[f"mirrors_stage_{family}"] = {"evaluations": summary["evaluations"],
                                               "distinct_call_sequences": summary["distinct_nontrivial"],
                                               "required_method_calls_observed": summary["required_calls_logged"],
                                               "samples": summary["samples"][:1]}
    ctx.coverage["evaluations"] += summary["evaluations"]
    ctx.coverage["distinct_nontrivial"] += summary["distinct_nontrivial"]


def replay(prop, path):
    with open(path) as f:
        print(f.read())
    return 0
