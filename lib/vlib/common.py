"""Shared plumbing of the check driver: builds, run context, evidence, known findings."""
import json
import os
import subprocess
import time

ROOT = os.path.dirname(os.path.dirname(os.path.dirname(os.path.abspath(__file__))))
ENGINES_DIR = os.path.join(ROOT, "engines")
TARGET = os.path.join(ROOT, "target")
OUT = os.path.join(ROOT, "out")
EVIDENCE = os.path.join(ROOT, "evidence")
KNOWN = os.path.join(ROOT, "known_findings.json")

CONFIG_FEATURES = {
    "std": ["--features", "cfg-std"],
    "nostd-spin": ["--no-default-features", "--features", "cfg-nostd-spin"],
    "nostd-nolock": ["--no-default-features", "--features", "cfg-nostd-nolock"],
}


class Inconclusive(Exception):
    pass


def base_env():
    env = dict(os.environ)
    env["CARGO_NET_OFFLINE"] = "true"
    env["RUST_BACKTRACE"] = "0"
    env["RUSTFLAGS"] = "--cfg unimock_verif"
    env.pop("CARGO_TARGET_DIR", None)
    return env


def build_harness(config, bins=None, profile="release", toolchain=None, extra_env=None, target_name=None,
                  extra_args=None):
    """Build the harness crate against /repo for one unimock configuration. Returns the directory with binaries."""
    tdir = os.path.join(TARGET, target_name or config)
    cmd = ["cargo"]
    if toolchain:
        cmd.append("+" + toolchain)
    cmd += ["build", "--offline", "--target-dir", tdir, "-p", "harness"]
    if profile == "release":
        cmd.append("--release")
    cmd += CONFIG_FEATURES[config]
    for b in bins or []:
        cmd += ["--bin", b]
    cmd += extra_args or []
    env = base_env()
    env.update(extra_env or {})
    t0 = time.time()
    r = subprocess.run(cmd, cwd=ENGINES_DIR, env=env, stdout=subprocess.PIPE, stderr=subprocess.STDOUT, text=True)
    if r.returncode != 0:
        tail = "\n".join(l for l in r.stdout.splitlines() if l.startswith("error") or "-->" in l)[:3000]
        raise Inconclusive(f"build of harness ({config}) failed: {tail or r.stdout[-2000:]}")
    return os.path.join(tdir, profile if profile != "dev" else "debug"), time.time() - t0


def load_known():
    if not os.path.exists(KNOWN):
        return []
    with open(KNOWN) as f:
        return json.load(f).get("findings", [])


class RunCtx:
    def __init__(self, prop, tier, seed):
        self.prop = prop
        self.tier = tier
        self.seed = seed
        self.level = "exploration"
        self.violations = []       # dicts: {"signature": str, "detail": {...}}
        self.inconclusive = []     # reasons
        self.coverage = {}
        self.assumptions = []
        self.notes = []
        self.out_dir = os.path.join(OUT, prop)
        os.makedirs(self.out_dir, exist_ok=True)
        os.makedirs(EVIDENCE, exist_ok=True)
        # stale replay files of earlier runs are removed so a path printed now is from this run
        for f in os.listdir(self.out_dir):
            if f.startswith("violation_"):
                try:
                    os.remove(os.path.join(self.out_dir, f))
                except OSError:
                    pass

    def violation(self, signature, detail):
        self.violations.append({"signature": signature, "detail": detail})

    def require(self, cond, reason):
        if not cond:
            self.inconclusive.append(reason)

    def finish(self, wall):
        known = [k for k in load_known() if k.get("property") == self.prop and k.get("status") == "known"]
        reported = []
        known_hit = []
        for v in self.violations:
            hit = None
            for k in known:
                if k.get("signature") and k["signature"] == v["signature"]:
                    hit = k
                    break
            if hit:
                known_hit.append((hit, v))
            else:
                reported.append(v)

        cov = dict(self.coverage)
        cov.setdefault("evaluations", 0)
        cov.setdefault("distinct_nontrivial", 0)
        cov.setdefault("rule", "")
        cov.setdefault("samples", [])
        cov["known_findings_hit"] = sorted({k["signature"] for k, _ in known_hit})
        cov["inconclusive_reasons"] = self.inconclusive
        if self.notes:
            cov["notes"] = self.notes
        evidence = {
            "property_id": self.prop,
            "tier": self.tier,
            "seed": self.seed,
            "level": self.level,
            "coverage": cov,
            "assumptions": self.assumptions,
            "wall_s": round(wall, 3),
            "violations": len(reported),
            "verdict": "violated" if reported else ("inconclusive" if self.inconclusive else "held"),
        }
        with open(os.path.join(EVIDENCE, f"{self.prop}.json"), "w") as f:
            json.dump(evidence, f, indent=1, sort_keys=True)
            f.write("\n")

        seen = set()
        for k, v in known_hit:
            if k["signature"] in seen:
                continue
            seen.add(k["signature"])
            print(f"KNOWN-FINDING: property={self.prop} {k.get('what', k['signature'])}")
        if reported:
            for n, v in enumerate(reported[:10]):
                path = os.path.join(self.out_dir, f"violation_{n}.json")
                with open(path, "w") as f:
                    json.dump({"property": self.prop, "tier": self.tier, "seed": self.seed,
                               "signature": v["signature"], **v["detail"]}, f, indent=1)
                    f.write("\n")
                print(f"VIOLATION property={self.prop} replay={path}")
                d = v["detail"]
                for key in ("at", "expected", "observed", "case", "what"):
                    if key in d:
                        print(f"    {key}: {str(d[key])[:600]}")
            return 1
        if self.inconclusive:
            for r in self.inconclusive[:10]:
                print(f"INCONCLUSIVE property={self.prop} reason={r[:1000]}")
            return 2
        print(f"HELD property={self.prop} tier={self.tier} seed={self.seed} "
              f"evaluations={cov['evaluations']} distinct_nontrivial={cov['distinct_nontrivial']} wall_s={wall:.1f}")
        return 0


def setup(engines):
    mods = []
    for m in engines.values():
        if m not in mods:
            mods.append(m)
    rc = 0
    for m in mods:
        try:
            m.setup()
        except Inconclusive as e:
            print(f"setup: {e}")
            rc = 1
    return rc
