"""Engine E: compile probe for the compile-time halves of C12 and C14.

A program that does not compile has no executions, so these halves cannot be monitored at run time; instead the
real rustc is run over generated builder chains and its diagnostics are the observed events: every must-fail chain
needs at least one error of the expected class inside its own function, every must-pass twin needs none (the twins
make sure a chain is rejected *for the stated reason*). This is a finite sample, not a proof about the type-state
encoding.
"""
import json
import os
import subprocess
import sys

from . import common

sys.path.insert(0, os.path.join(common.ROOT, "gen"))
import shapegen as sg  # noqa: E402

PRELUDE = """
#![allow(dead_code, unused_variables, unused_must_use, clippy::all)]
use std::task::Poll;
use unimock::*;

pub struct Tok(pub u32);
#[derive(Clone)]
pub struct CTok(pub u32);

#[unimock(api=M)]
pub trait Tr {
    fn tok(&self) -> Tok;
    fn ctok(&self) -> CTok;
    fn num(&self, x: i32) -> i32;
    fn res(&self) -> Result<&str, Tok>;
    fn cres(&self) -> Result<&str, CTok>;
    fn tup(&self) -> (Tok, &str);
    fn ctup(&self) -> (CTok, &str);
    fn poll(&self) -> Poll<Result<&str, Tok>>;
    fn cpoll(&self) -> Poll<Result<&str, CTok>>;
    fn opt(&self) -> Option<Result<&str, Tok>>;
    fn copt(&self) -> Option<Result<&str, CTok>>;
    fn vec(&self) -> Vec<Result<&str, Tok>>;
    fn cvec(&self) -> Vec<Result<&str, CTok>>;
}
"""

# (property, must_fail, description, expression)
CHAINS = [
    # ---- C12: a non-Clone value cannot be quantified for more than one use
    ("C12", True, "n_times on a non-Clone value", "M::tok.some_call(matching!()).returns(Tok(1)).n_times(2)"),
    ("C12", False, "twin: n_times on a Clone value", "M::ctok.some_call(matching!()).returns(CTok(1)).n_times(2)"),
    ("C12", True, "at_least_times on a non-Clone value", "M::tok.some_call(matching!()).returns(Tok(1)).at_least_times(1)"),
    ("C12", False, "twin: at_least_times on a Clone value", "M::ctok.some_call(matching!()).returns(CTok(1)).at_least_times(1)"),
    ("C12", True, "each_call returns a non-Clone value", "M::tok.each_call(matching!()).returns(Tok(1))"),
    ("C12", False, "twin: each_call returns a Clone value", "M::ctok.each_call(matching!()).returns(CTok(1))"),
    ("C12", False, "twin: single use of a non-Clone value", "M::tok.some_call(matching!()).returns(Tok(1)).once()"),
    ("C12", False, "twin: unquantified single use", "M::tok.next_call(matching!()).returns(Tok(1))"),
    ("C12", True, "then() followed by a non-Clone value", "M::tok.some_call(matching!()).returns(Tok(1)).once().then().returns(Tok(2))"),
    ("C12", False, "twin: then() followed by a Clone value", "M::ctok.some_call(matching!()).returns(CTok(1)).once().then().returns(CTok(2))"),
    ("C12", True, "stub pattern returning a non-Clone value", "M::tok.stub(|each| { each.call(matching!()).returns(Tok(1)); })"),
    ("C12", False, "twin: stub pattern returning a Clone value", "M::ctok.stub(|each| { each.call(matching!()).returns(CTok(1)); })"),
    ("C12", True, "Result<&str, Tok>: each_call with an owned non-Clone leaf", "M::res.each_call(matching!()).returns(Err::<&str, _>(Tok(1)))"),
    ("C12", False, "twin: Result<&str, CTok>", "M::cres.each_call(matching!()).returns(Err::<&str, _>(CTok(1)))"),
    ("C12", False, "twin: Result<&str, Tok> single use", "M::res.some_call(matching!()).returns(Err::<&str, _>(Tok(1)))"),
    ("C12", True, "(Tok, &str): n_times", "M::tup.some_call(matching!()).returns((Tok(1), \"x\")).n_times(2)"),
    ("C12", False, "twin: (CTok, &str): n_times", "M::ctup.some_call(matching!()).returns((CTok(1), \"x\")).n_times(2)"),
    ("C12", True, "Poll<Result<&str, Tok>>: each_call", "M::poll.each_call(matching!()).returns(Poll::Ready(Err::<&str, _>(Tok(1))))"),
    ("C12", False, "twin: Poll<Result<&str, CTok>>: each_call", "M::cpoll.each_call(matching!()).returns(Poll::Ready(Err::<&str, _>(CTok(1))))"),
    ("C12", True, "Poll<Result<&str, Tok>>: n_times", "M::poll.some_call(matching!()).returns(Poll::Ready(Err::<&str, _>(Tok(1)))).n_times(2)"),
    ("C12", True, "Option<Result<&str, Tok>>: each_call", "M::opt.each_call(matching!()).returns(Some(Err::<&str, _>(Tok(1))))"),
    ("C12", False, "twin: Option<Result<&str, CTok>>: each_call", "M::copt.each_call(matching!()).returns(Some(Err::<&str, _>(CTok(1))))"),
    ("C12", True, "Vec<Result<&str, Tok>>: at_least_times", "M::vec.some_call(matching!()).returns(vec![Err::<&str, _>(Tok(1))]).at_least_times(1)"),
    ("C12", False, "twin: Vec<Result<&str, CTok>>: at_least_times", "M::cvec.some_call(matching!()).returns(vec![Err::<&str, _>(CTok(1))]).at_least_times(1)"),
    # ---- C14: ordered patterns only take exact counts; then() only follows an exact count
    ("C14", True, "at_least_times on next_call (returns)", "M::num.next_call(matching!(_)).returns(1).at_least_times(2)"),
    ("C14", False, "twin: n_times on next_call", "M::num.next_call(matching!(_)).returns(1).n_times(2)"),
    ("C14", False, "twin: at_least_times on some_call", "M::num.some_call(matching!(_)).returns(1).at_least_times(2)"),
    ("C14", True, "at_least_times on next_call (answers)", "M::num.next_call(matching!(_)).answers(&|_, x| x).at_least_times(1)"),
    ("C14", False, "twin: at_least_times on each_call (answers)", "M::num.each_call(matching!(_)).answers(&|_, x| x).at_least_times(1)"),
    ("C14", True, "then() after at_least_times (each_call)", "M::num.each_call(matching!(_)).returns(1).at_least_times(1).then().returns(2)"),
    ("C14", False, "twin: then() after n_times", "M::num.each_call(matching!(_)).returns(1).n_times(1).then().returns(2)"),
    ("C14", True, "then() after at_least_times (some_call)", "M::num.some_call(matching!(_)).returns(1).at_least_times(1).then().returns(2)"),
    ("C14", False, "twin: then() after once", "M::num.some_call(matching!(_)).returns(1).once().then().returns(2)"),
    ("C14", True, "at_least_times after then() on next_call", "M::num.next_call(matching!(_)).returns(1).once().then().returns(2).at_least_times(1)"),
    ("C14", False, "twin: n_times after then() on next_call", "M::num.next_call(matching!(_)).returns(1).once().then().returns(2).n_times(1)"),
]

_CACHE = {}


def _run_probe():
    if "result" in _CACHE:
        return _CACHE["result"]
    d = os.path.join(common.OUT, "compile_probe")
    os.makedirs(os.path.join(d, "src"), exist_ok=True)
    lines = PRELUDE.strip("\n").split("\n")
    ranges = []
    for k, (prop, must_fail, desc, expr) in enumerate(CHAINS):
        start = len(lines) + 1
        lines.append(f"pub fn chain_{k}() {{")
        lines.append(f"    let _clause = {expr};")
        lines.append("}")
        ranges.append((start, len(lines)))
    lines.append("fn main() {}")
    with open(os.path.join(d, "src", "main.rs"), "w") as f:
        f.write("\n".join(lines) + "\n")
    with open(os.path.join(d, "Cargo.toml"), "w") as f:
        f.write(sg.CARGO_TOML.format(name="compile_probe", features='"std"', extra_deps=""))
    if os.path.exists("/repo/Cargo.lock"):
        with open("/repo/Cargo.lock") as a, open(os.path.join(d, "Cargo.lock"), "w") as b:
            b.write(a.read())
    env = common.base_env()
    r = subprocess.run(["cargo", "check", "--offline", "--message-format=json", "--target-dir",
                        os.path.join(common.TARGET, "compile_probe")], cwd=d, env=env, stdout=subprocess.PIPE,
                       stderr=subprocess.PIPE, text=True, timeout=1800)
    errors = {k: [] for k in range(len(CHAINS))}
    outside = []
    saw_compiler = False
    for line in r.stdout.splitlines():
        try:
            m = json.loads(line)
        except ValueError:
            continue
        if m.get("reason") == "compiler-artifact":
            saw_compiler = True
        if m.get("reason") != "compiler-message" or m["message"].get("level") != "error":
            continue
        msg = m["message"]
        if msg.get("message", "").startswith("aborting due to"):
            continue
        hit = None
        for sp in msg.get("spans", []):
            while sp.get("expansion") and not sp["file_name"].endswith("src/main.rs"):
                sp = sp["expansion"]["span"]
            if sp["file_name"].endswith("src/main.rs"):
                for k, (a, b) in enumerate(ranges):
                    if a <= sp["line_start"] <= b:
                        hit = k
        code = (msg.get("code") or {}).get("code", "")
        if hit is None:
            outside.append(f"{code}: {msg.get('message', '')[:200]}")
        else:
            errors[hit].append(f"{code}: {msg.get('message', '')[:160]}")
    _CACHE["result"] = (errors, outside, r.returncode, r.stderr[-1500:], saw_compiler)
    return _CACHE["result"]


def run(ctx, prop):
    errors, outside, rc, tail, saw_compiler = _run_probe()
    if outside:
        ctx.inconclusive.append(f"compile probe: errors outside of the chain functions: {outside[:3]}")
        return None
    if not any(errors.values()) and rc != 0:
        ctx.inconclusive.append(f"compile probe: cargo check failed without attributable errors: {tail[-400:]}")
        return None
    n_fail = n_pass = 0
    rows = []
    for k, (p, must_fail, desc, expr) in enumerate(CHAINS):
        if p != prop:
            continue
        got = errors[k]
        ok_class = any(c.split(":")[0] in ("E0277", "E0599", "E0271", "E0308") for c in got)
        if must_fail:
            n_fail += 1
            if not got:
                ctx.violation(f"compile-probe:{prop}:accepted:{desc}", {
                    "what": f"a builder chain that must not type-check was accepted by rustc: {desc}",
                    "at": f"chain {k}", "case": expr, "expected": "a trait-bound / method-resolution error",
                    "observed": "compiles"})
            elif not ok_class:
                ctx.inconclusive.append(f"compile probe: chain '{desc}' is rejected, but not by a bound/method error: {got[:2]}")
        else:
            n_pass += 1
            if got:
                ctx.violation(f"compile-probe:{prop}:rejected-twin:{desc}", {
                    "what": f"a builder chain that must type-check was rejected by rustc: {desc}",
                    "at": f"chain {k}", "case": expr, "expected": "compiles", "observed": "; ".join(got)[:600]})
        rows.append({"chain": expr, "must_fail": must_fail, "errors": [g.split(":")[0] for g in got][:3]})
    ctx.require(n_fail > 0 and n_pass > 0, "compile probe ran no chain for this property")
    return {"must_fail_chains": n_fail, "must_pass_twins": n_pass, "chains": rows,
            "note": "finite sample of builder chains judged by the real rustc; not a proof about the type-state encoding"}
