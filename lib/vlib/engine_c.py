"""Engine C (sched): controlled schedules over the H3 yield points, real-thread stress, sanitizers."""
import json
import os
import subprocess

from . import common

PROPERTIES = ["C10", "C12", "C13"]


def setup():
    common.build_harness("std", bins=["sched"])


def run_sched(ctx, what, cases, extra=None, config="std", timeout=3600, label=None):
    """Runs `sched run --what <what>`; returns (merged summary dict, violations list)."""
    bindir, build_s = common.build_harness(config, bins=["sched"])
    exe = os.path.join(bindir, "sched")
    jobs = min(16, os.cpu_count() or 16)
    cmd = [exe, "run", "--what", what, "--cases", str(cases), "--seed", str(ctx.seed), "--jobs", str(jobs)]
    cmd += extra or []
    try:
        r = subprocess.run(cmd, env=common.base_env(), stdout=subprocess.PIPE, stderr=subprocess.DEVNULL,
                           text=True, timeout=timeout)
    except subprocess.TimeoutExpired:
        raise common.Inconclusive(f"sched {what} exceeded the {timeout} s watchdog")
    workers, viols, summary = [], [], None
    for line in r.stdout.splitlines():
        if line.startswith("WORKER_SUMMARY "):
            workers.append(json.loads(line.split(" ", 1)[1]))
        elif line.startswith("VIOLATION_CASE "):
            viols.append(json.loads(line.split(" ", 1)[1]))
        elif line.startswith("RUN_SUMMARY "):
            summary = json.loads(line.split(" ", 1)[1])
    if summary is None:
        raise common.Inconclusive(f"sched {what} produced no summary (exit {r.returncode})")
    if summary["dead_workers"]:
        ctx.inconclusive.append(f"sched {what}: workers died: {summary['dead_workers']}")
    merged = {"cases": 0, "executions": 0, "distinct_schedules": 0, "distinct_cases": 0, "exhaustive_cases": 0,
              "exhaustive_schedules": 0, "violations": 0, "sites": set(), "stats": {}, "samples": [],
              "inconclusive": []}
    for w in workers:
        for k in ("cases", "executions", "distinct_schedules", "distinct_cases", "exhaustive_cases",
                  "exhaustive_schedules", "violations"):
            merged[k] += w[k]
        merged["sites"].update(w["sites"])
        for k, v in w["stats"].items():
            merged["stats"][k] = merged["stats"].get(k, 0) + v
        merged["samples"] += w["samples"][:1]
        merged["inconclusive"] += w["inconclusive"]
    merged["sites"] = sorted(merged["sites"])
    merged["samples"] = merged["samples"][:4]
    merged["wall_s"] = float(summary["wall_s"])
    merged["build_s"] = round(build_s, 2)
    for why in merged["inconclusive"][:3]:
        ctx.inconclusive.append(f"sched {label or what}: {why}")
    return merged, viols


def report(ctx, viols, tag, stage):
    """Turns VIOLATION_CASE lines whose tags contain `tag` into violations of ctx.prop."""
    others = 0
    for v in viols:
        if tag in v["tags"]:
            sig = f"sched:{v['what']}:{'+'.join(v['tags'])}:{v['at'].split(' ')[0]}"
            detail = dict(v)
            detail["stage"] = stage
            detail["engine"] = "sched"
            ctx.violation(sig, detail)
        else:
            others += 1
    return others


C10_BUDGET = {"quick": dict(controlled=960, stress=480, stress_calls=2000),
              "thorough": dict(controlled=24000, stress=9600, stress_calls=4000)}

EXPECTED_SITES = ["counter.rs", "state.rs", "private.rs"]


def run_c10(ctx):
    b = C10_BUDGET[ctx.tier]
    ctl, v1 = run_sched(ctx, "c10", b["controlled"])
    report(ctx, v1, "C10", "controlled schedules")
    st, v2 = run_sched(ctx, "c10-stress", b["stress"], ["--threads", "16", "--calls", str(b["stress_calls"])])
    report(ctx, v2, "C10", "real-thread stress")
    # long response series and the first delegated calls of a shared instance, under real threads
    ser, v3 = run_sched(ctx, "c13-series-stress", b["stress"] // 5)
    report(ctx, v3, "C10", "then()-series under real threads")
    race, v4 = run_sched(ctx, "c15-helper-race", b["stress"] * 4)
    report(ctx, v4, "C10", "helper creation race")
    # composite single-use / repeatable return shapes requested by several threads (enumerated schedules)
    shp, v5 = run_sched(ctx, "c12", 160 if ctx.tier == "quick" else 4000)
    report(ctx, v5, "C10", "return shapes under controlled schedules")
    ctx.require(ser["stats"].get("series_calls", 0) > 0 and race["stats"].get("delegated_calls", 0) > 0,
                "series / helper-race stress made no calls")
    # gates
    ctx.require(ctl["executions"] > 0, "no controlled execution ran")
    ctx.require(ctl["exhaustive_cases"] > 0, "no case was enumerated exhaustively")
    ctx.require(ctl["stats"].get("executions_with_overlapping_calls", 0) > 0,
                "no execution had calls overlapping in time")
    for f in EXPECTED_SITES:
        ctx.require(any(f in s for s in ctl["sites"]), f"no yield point in {f} was reached")
    ctx.require(st["stats"].get("stress_calls", 0) > 0, "stress made no calls")
    ctx.coverage.update({
        "evaluations": ctl["executions"] + st["executions"] + ser["executions"] + race["executions"] + shp["executions"],
        "return_shape_executions": shp["executions"],
        "series_stress": {"executions": ser["executions"], "calls": ser["stats"].get("series_calls", 0)},
        "helper_race": {"rounds": race["executions"], "calls": race["stats"].get("delegated_calls", 0)},
        "distinct_nontrivial": ctl["distinct_schedules"] + st["distinct_cases"],
        "rule": "controlled: an evaluation is one execution of a generated concurrent case (2-4 threads x 1-3 calls on "
                "shared patterns, through clones and a shared &Unimock) under one schedule chosen at the H3 yield points "
                "(depth-first enumeration of all schedules for cases with <= 4 calls and <= 3 threads, random/PCT "
                "otherwise); each recorded history is checked for linearizability against Spec-M incl. final counters "
                "and verification text. distinct = distinct (case, schedule) pairs, all non-trivial (>= 2 threads). "
                "stress: one evaluation = one run of 16 free-running threads whose outcome multiset, counters and "
                "verdict must equal the sequential ones.",
        "samples": ctl["samples"] + st["samples"][:2],
        "controlled": {k: ctl[k] for k in ("cases", "executions", "distinct_schedules", "exhaustive_cases",
                                           "exhaustive_schedules", "sites", "stats", "wall_s")},
        "stress": {k: st[k] for k in ("cases", "executions", "stats", "wall_s")},
        "exhaustive": False,
    })
    ctx.assumptions += [
        "interleavings are sequentially consistent at the granularity of the H3 yield points (atomic operations, "
        "lock acquisitions, value-chain insertions); weak-memory effects only through the sanitizer stages",
        "Spec-M as in engine A",
    ]
    if ctx.tier == "thorough":
        from . import sanitizers
        sanitizers.tsan_stage(ctx, "c10-stress", ["--threads", "8", "--calls", "400"], cases=32, tag="C10")
        sanitizers.miri_stage(ctx, "c10-stress", ["--threads", "3", "--calls", "4"], cases=4, tag="C10")


def run(ctx):
    if ctx.prop == "C10":
        return run_c10(ctx)
    from . import engine_c_lin
    return engine_c_lin.run(ctx)


def replay(prop, path):
    with open(path) as f:
        v = json.load(f)
    bindir, _ = common.build_harness("std", bins=["sched"])
    cmd = [os.path.join(bindir, "sched"), "replay", "--what", v.get("what", "c10"), "--seed", str(v["seed"]),
           "--worker", str(v["worker"]), "--index", str(v["index"])]
    if v.get("schedule") and v["schedule"] != "free-running":
        cmd += ["--schedule", v["schedule"]]
    return subprocess.run(cmd, env=common.base_env()).returncode
