"""Engine D (crashbox): every C11 scenario in an expendable child process + caught-user-panic histories (dynmock)."""
import json
import os
import subprocess

from . import common
from . import engine_a

PROPERTIES = ["C11"]


def setup():
    common.build_harness("std", bins=["crashbox", "dynmock"])


def run(ctx):
    ctx.level = "fault_enumeration"
    bindir, build_s = common.build_harness("std", bins=["crashbox"])
    exe = os.path.join(bindir, "crashbox")
    rounds = 1 if ctx.tier == "quick" else 5
    rows = []
    total = 0
    for _ in range(rounds):
        try:
            r = subprocess.run([exe, "run", "--jobs", "16"], env=common.base_env(), stdout=subprocess.PIPE,
                               stderr=subprocess.DEVNULL, text=True, timeout=1800)
        except subprocess.TimeoutExpired:
            raise common.Inconclusive("crashbox exceeded the 1800 s watchdog")
        rr = [json.loads(l.split(" ", 1)[1]) for l in r.stdout.splitlines() if l.startswith("SCENARIO ")]
        if not rr:
            raise common.Inconclusive(f"crashbox produced no scenario results (exit {r.returncode})")
        rows = rr if not rows else rows
        total += len(rr)
        for s in rr:
            point, topo, unmet, extra = s["id"].split("/")[:4]
            why = None
            if s["signal"] == -1:
                ctx.inconclusive.append(f"crashbox child {s['id']} hung (20 s watchdog)")
                continue
            if s["did_not_panic"]:
                ctx.inconclusive.append(f"crashbox scenario {s['id']} did not reach its fault (harness bug)")
                continue
            if s.get("fullerr"):
                # nothing can be read from a stderr that rejects every write: only the way the child ended counts
                if s["signal"] is not None:
                    why = f"with an unwritable stderr the child died by signal {s['signal']} (abort) instead of exiting with the panic"
                elif s["exit_code"] != 101:
                    why = f"with an unwritable stderr the child exited with {s['exit_code']} instead of 101"
            elif topo in ("caught-then-continue", "thread-caught-then-continue"):
                if s["signal"] is not None:
                    why = f"child died by signal {s['signal']}"
                elif s.get("continue_failed") or not s.get("continue_ok"):
                    why = "after a caught user panic the mock was not usable / verification did not reflect the matched calls"
                elif not s["first_panic_is_injected"]:
                    why = "the first reported panic is not the injected one"
            elif s["signal"] is not None:
                why = f"child died by signal {s['signal']} (abort) instead of reporting the panic"
            elif s["abort_text"]:
                why = "child reported a panic while panicking"
            elif s["exit_code"] != 101:
                why = f"child exit code {s['exit_code']} instead of 101"
            elif not s["first_panic_is_injected"]:
                why = "the first reported panic is not the injected one"
            elif s["panics_reported"] > (2 if topo == "clone-thread-panics" else 1):
                why = f"{s['panics_reported']} panics reported for one injected fault"
            if why:
                ctx.violation(f"crashbox:{s['id']}", {
                    "what": why, "scenario": s["id"], "at": s["id"], "expected": "exit 101, one panic report, "
                    "first message = the injected fault", "observed": f"exit={s['exit_code']} signal={s['signal']} "
                    f"panics={s['panics_reported']} first={s['first_panic'][:200]!r} tail={s['stderr_tail'][-200:]!r}",
                    "replay_cmd": f"{exe} child {s['id']}"})
    points = sorted({s["id"].split("/")[0] for s in rows})
    topos = sorted({s["id"].split("/")[1] for s in rows})
    ctx.require(len(points) >= 19 and len(topos) >= 16, "crash point x topology table incomplete")
    ctx.require(any(s.get("fullerr") for s in rows), "no scenario ran with an unwritable stderr")

    # arguments whose Debug impl panics: a call that succeeds never needs them rendered (engine C scenario)
    from . import engine_c
    nr, v_nr = engine_c.run_sched(ctx, "c12", 16)
    engine_c.report(ctx, v_nr, "C11", "NoRender arguments")
    ctx.require(nr["stats"].get("norender_scenarios", 0) > 0, "the NoRender scenario did not run")

    # after a *caught* user panic the mock stays usable and verification reflects the matched calls (engine A)
    cases = 300_000 if ctx.tier == "quick" else 8_000_000
    workers, viols, summary, _ = engine_a._run_config(ctx, "std", cases)
    stats = engine_a._merge(w["stats"] for w in workers)
    for v in viols:
        sig = f"dynmock:std:{'+'.join(v['tags'])}:{v['at'].split(' ')[0]}"
        ctx.violation(sig, dict(v))
    for key in ["userpanic_answer", "userpanic_matcher", "userpanic_real", "userpanic_default"]:
        ctx.require(stats.get(key, 0) > 0, f"coverage gate: no '{key}' event observed")
    n_caught = sum(stats.get(k, 0) for k in stats if k.startswith("userpanic_"))

    ctx.coverage.update({
        "evaluations": total + sum(w["cases"] for w in workers),
        "distinct_nontrivial": len(rows) + summary["distinct_nontrivial"],
        "rule": "fault enumeration: crash point (3 body positions, matcher, answer, real fn, default body, argument "
                "Debug, return Clone, 10 mock-induced kinds) x topology (15: caught and continued in-process, or fatal to a worker thread owning a clone and continued on the original (the same call must then work and verification must judge the counts), an explicit verify() from a fixture's destructor, a mock created and dropped by cleanup code during the unwinding, original only, clone dropped "
                "first/outliving, clone parked on another thread, Rc, Arc, Arc whose last owner is a worker, Box, "
                "Box<dyn Trait>, by-value provided method, original on a foreign thread, clone thread panics) x "
                "met/unmet expectations x 0/2 extra live clones, each in its own child process (all combinations "
                "that are expressible are run: exhaustive for this table). Second stage: random histories with user "
                "panics injected into callbacks and caught, judged by Spec-M afterwards. distinct = distinct scenario "
                "ids + distinct case hashes; every one is non-trivial (a fault is injected).",
        "samples": [rows[0], rows[len(rows) // 2], rows[-1]],
        "crash_points": points,
        "topologies": topos,
        "scenarios": len(rows),
        "rounds": rounds,
        "panics_reported_histogram": {str(k): sum(1 for s in rows if s["panics_reported"] == k) for k in (0, 1, 2, 3)},
        "caught_user_panics_in_histories": n_caught,
        "dynmock_events_by_type": stats,
        "exhaustive": True,
    })
    ctx.assumptions += [
        "std builds only (the property is about std); RUST_BACKTRACE=0; default panic hook output is parsed",
        "a child that exits 101 with exactly the injected panic first is 'reported, not aborted'",
    ]


def replay(prop, path):
    with open(path) as f:
        v = json.load(f)
    if "scenario" in v:
        bindir, _ = common.build_harness("std", bins=["crashbox"])
        return subprocess.run([os.path.join(bindir, "crashbox"), "child", v["scenario"]],
                              env=common.base_env()).returncode
    return engine_a.replay(prop, path)
