"""Engine A (dynmock): random mocks interpreted through the real builder API, monitored against Spec-M."""
import json
import os
import subprocess

from . import common

PROPERTIES = ["C01", "C02", "C03", "C04", "C07", "C08", "C09", "C14", "C18"]

# unimock build configurations per property (quick, extra for thorough)
CONFIGS = {
    "C01": (["std", "nostd-spin"], ["nostd-nolock"]),
    "C02": (["std"], ["nostd-spin", "nostd-nolock"]),
    "C03": (["std"], ["nostd-spin", "nostd-nolock"]),
    "C04": (["std"], ["nostd-spin", "nostd-nolock"]),
    "C07": (["std"], ["nostd-spin", "nostd-nolock"]),
    "C08": (["std", "nostd-spin"], ["nostd-nolock"]),
    "C09": (["std", "nostd-spin"], ["nostd-nolock"]),
    "C14": (["std", "nostd-nolock"], ["nostd-spin"]),
    "C18": (["std"], []),
}

CASES = {"quick": {"std": 400_000, "other": 100_000}, "thorough": {"std": 12_000_000, "other": 3_000_000}}

ALL_PANIC_KINDS = ["NoMockImpl", "NoMatch", "NoOutput", "WrongOrder", "OutOfRange", "InputsNotMatched",
                   "CannotReturnTwice", "CannotUnmock", "NoDefaultImpl", "Explicit", "NoMatcherFn"]

# statistics that must have been observed (on the std configuration) for the verdict "held"
GATES = {
    "C01": ["out_return", "out_answer", "mockpanic_NoMatch", "out_real", "snapshots"],
    "C02": ["out_return", "out_answer", "out_returns_default", "out_real", "out_default_body",
            "mockpanic_CannotReturnTwice", "mockpanic_Explicit", "mockpanic_NoOutput", "dontcare_points"],
    "C03": ["line_exact_one_below", "line_exact_one_above", "line_atleast_one_below", "met_exact_at_bound",
            "met_atleast_at_bound", "met_atleast_above_bound", "line_never_called", "verdict_lines_n1",
            "verdict_lines_n2", "verdict_lines_n3", "verdict_lines_n4", "life_report", "life_verify"],
    "C04": ["prefix_extension_cases", "mockpanic_WrongOrder", "mockpanic_OutOfRange", "mockpanic_InputsNotMatched", "out_return",
            "out_answer", "snapshots"],
    "C07": ["mockpanic_NoMockImpl", "mockpanic_CannotUnmock", "mockpanic_NoMatch", "mockpanic_NoDefaultImpl",
            "out_real", "out_default_body", "snapshots"],
    "C08": ["verdict_errors_forwarded", "userpanic_answer", "userpanic_matcher", "userpanic_real",
            "userpanic_default"] + ["mockpanic_" + k for k in ALL_PANIC_KINDS],
    "C09": ["life_clone", "life_drop_clone", "life_verify", "life_report", "life_no_verify_in_drop",
            "life_drop_original", "life_drop_original_on_thread", "life_verify_clone",
            "life_no_verify_in_drop_clone", "life_make_ref", "verdict_live_clones", "verdict_wrong_thread",
            "verdict_lines", "verdict_errors_forwarded", "out_default_body"],
    "C14": ["build_rejected_mixed_mode", "build_rejected_empty_stub", "built", "out_return"],
    "C11": [],
    "C12": [],
    "C15": [],
    "C16": [],
    "C19": [],
    "C18": ["meta_perm", "meta_perm_changed_order", "meta_route", "meta_two_mocks", "meta_generic_swap",
            "meta_base_calls"],
}
STD_ONLY_GATES = {"life_report", "life_drop_original_on_thread", "verdict_wrong_thread"}

RULES = {
    "default": "cases = (strict|partial, clause tree built through the real builder API and real tuple impls, "
               "history of calls/lifecycle operations) drawn from a seeded profile for this property; every case "
               "is executed on the real unimock and judged by Spec-M after every operation (outcome, callback "
               "event log, H2 counter snapshot, verification text). distinct = distinct case hash; non-trivial = "
               "at least 2 patterns or at least 2 operations.",
    "C04": "two stages. (1) SYSTEMATIC: for 1/40 of the generated ordered clause sets the expected slot sequence is "
           "computed and, for every accepted prefix (length 0..10), EVERY possible next call (every mentioned method "
           "plus one unmentioned one x every argument tuple of the domain) is made, followed by the next two expected "
           "calls; (2) random histories that follow the expected sequence with 88% probability per call. Every call is "
           "judged by Spec-M (accept / which rejection / response / global index via H2). distinct = distinct case hash; "
           "non-trivial = at least 2 patterns or 2 operations.",
    "C09": "two stages. (1) EXHAUSTIVE: every sequence of lifecycle events of length <= 4 (quick) / <= 6 (thorough) over "
           "{clone of any live instance (<= 2 clones), call, provided-method call (creates the delegation helper), "
           "make_ref of a value / of a clone, drop clone, verify()/no_verify_in_drop() on a clone, verify(), report(), "
           "no_verify_in_drop(), drop, drop on a foreign thread} on a fixed two-clause mock whose verdict depends on the "
           "history (met and unmet both occur); (2) random cases as for the other properties with 60% lifecycle "
           "operations. Every operation's outcome (silent / which panic / ExitCode) is judged by the lifecycle automaton "
           "of Spec-M. distinct = distinct case hash; non-trivial = at least 2 patterns or 2 operations.",
    "C18": "base case as for C01-C04; for each base case the real code is run again under (a) a clause "
           "permutation keeping per-method and ordered order, (b) calls routed over 1-3 clones and helper "
           "threads, (c) a second mock from the same clauses receiving interleaved foreign calls, (d) swapped "
           "generic instantiations; outcomes and verification lines are compared run against run. distinct = "
           "distinct base case hash; non-trivial = at least 2 patterns or 2 calls.",
}


def setup():
    for cfg in ["std", "nostd-spin", "nostd-nolock"]:
        common.build_harness(cfg, bins=["dynmock"])


def _run_config(ctx, config, cases, profile="release"):
    if profile == "release":
        bindir, build_s = common.build_harness(config, bins=["dynmock"])
    else:
        # unoptimised build with overflow checks and debug assertions (what `cargo test` users run)
        bindir, build_s = common.build_harness(config, bins=["dynmock"], profile="dev", target_name=config + "-debug")
    exe = os.path.join(bindir, "dynmock")
    out_dir = os.path.join(ctx.out_dir, config + ("" if profile == "release" else "-debug"))
    os.makedirs(out_dir, exist_ok=True)
    jobs = min(16, os.cpu_count() or 16)
    cmd = [exe, "run", "--prop", ctx.prop, "--cases", str(cases), "--seed", str(ctx.seed), "--jobs", str(jobs),
           "--out", out_dir, "--enum-len", "4" if ctx.tier == "quick" else "6"]
    try:
        r = subprocess.run(cmd, env=common.base_env(), stdout=subprocess.PIPE, stderr=subprocess.DEVNULL,
                           text=True, timeout=3600)
    except subprocess.TimeoutExpired:
        raise common.Inconclusive(f"dynmock ({config}) exceeded the 3600 s watchdog")
    workers, viols, summary = [], [], None
    for line in r.stdout.splitlines():
        if line.startswith("WORKER_SUMMARY "):
            workers.append(json.loads(line.split(" ", 1)[1]))
        elif line.startswith("VIOLATION_CASE "):
            viols.append(json.loads(line.split(" ", 1)[1]))
        elif line.startswith("RUN_SUMMARY "):
            summary = json.loads(line.split(" ", 1)[1])
    if summary is None:
        raise common.Inconclusive(f"dynmock ({config}) produced no summary (exit {r.returncode})")
    if summary["dead_workers"]:
        ctx.inconclusive.append(f"dynmock ({config}) workers died: {summary['dead_workers']}")
    return workers, viols, summary, build_s


def _merge(dicts):
    out = {}
    for d in dicts:
        for k, v in d.items():
            out[k] = out.get(k, 0) + v
    return out


def run(ctx):
    quick_cfgs, extra = CONFIGS[ctx.prop]
    configs = quick_cfgs + (extra if ctx.tier == "thorough" else [])
    budget = CASES[ctx.tier]
    per_config = {}
    total_eval = 0
    total_distinct = 0
    samples = []
    for config in configs:
        cases = budget["std"] if config == "std" else budget["other"]
        if ctx.prop == "C18":
            cases //= 4  # each metamorphic case runs the real code five times
        workers, viols, summary, build_s = _run_config(ctx, config, cases)
        stats = _merge(w["stats"] for w in workers)
        dist = _merge(w["distinguishing"] for w in workers)
        others = _merge(w["other_property_discrepancies"] for w in workers)
        arities = _merge(w["max_tuple_arity"] for w in workers)
        n = sum(w["cases"] for w in workers)
        total_eval += n
        total_distinct += summary["distinct_nontrivial"]
        for w in workers:
            for s in w["samples"]:
                if len(samples) < 6:
                    samples.append({"config": config, "case": s})
        enumerated = sum(w.get("enumerated", 0) for w in workers)
        total_eval += enumerated + stats.get("prefix_extension_cases", 0)
        if ctx.prop == "C09":
            ctx.require(enumerated > 0, f"no lifecycle sequence was enumerated ({config})")
        per_config[config] = {
            "cases": n,
            "exhaustively_enumerated_lifecycle_sequences": enumerated,
            "distinct_nontrivial": summary["distinct_nontrivial"],
            "events_by_type": stats,
            "spec_variants_distinguishing_cases": dist,
            "discrepancies_attributed_to_other_properties": others,
            "cases_containing_a_tuple_of_arity": arities,
            "engine_wall_s": float(summary["wall_s"]),
            "build_s": round(build_s, 2),
        }
        for v in viols:
            sig = f"dynmock:{config}:{'+'.join(v['tags'])}:{v['at'].split(' ')[0]}"
            detail = dict(v)
            detail["replay_cmd"] = (f"./check {ctx.prop} --replay <this file>  (runs: dynmock replay --prop "
                                    f"{ctx.prop} --seed {v['seed']} --worker {v['worker']} --index {v['index']})")
            ctx.violation(sig, detail)
        # coverage gates
        for key in GATES[ctx.prop]:
            if config != "std" and key in STD_ONLY_GATES:
                continue
            if config == "nostd-nolock" and key in ("mockpanic_CannotReturnTwice",):
                continue
            ctx.require(stats.get(key, 0) > 0, f"coverage gate: no '{key}' event observed ({config})")
        for variant, count in dist.items():
            if config != "std" and variant in ("ThreadIgnored",):
                continue
            if config == "nostd-nolock" and variant in ("SingleUseRepeats",):
                continue  # single-use returns cannot even be constructed without a lock implementation
            ctx.require(count > 0, f"workload cannot tell Spec-M from its wrong variant {variant} ({config})")
        if ctx.prop == "C07" and config == "std":
            cells = sorted(k for k in stats if k.startswith("cell_"))
            want = [f"cell_{m}_{s}_{c}" for m in ("strict", "partial") for s in ("unmentioned", "unmatched")
                    for c in ("neither", "default", "real", "both", "pbd_real", "pbd_none")]
            for w in want:
                ctx.require(stats.get(w, 0) > 0, f"decision table cell {w[5:]} was not visited ({config})")
            per_config[config]["decision_table_cells_visited"] = {c[5:]: stats[c] for c in cells}
            per_config[config]["decision_table_exhaustive"] = all(stats.get(w, 0) > 0 for w in want)
        if ctx.prop == "C14":
            for a in range(2, 17):
                ctx.require(arities.get(str(a), 0) > 0, f"coverage gate: no tuple of arity {a} ({config})")
            if config == "nostd-nolock":
                ctx.require(stats.get("build_rejected_no_mutex_api", 0) > 0,
                            "coverage gate: no unproducible-return rejection observed (nostd-nolock)")
        if others:
            ctx.notes.append(f"{config}: discrepancies attributed to other properties (not reported here): {others}")

    # the same workload on a debug build of library and harness: arithmetic overflow and debug assertions are
    # checked there, which can change what a call does (e.g. while a panic message is being formatted)
    if "std" in configs:
        n_dbg = 30_000 if ctx.tier == "quick" else 600_000
        workers, viols, summary, build_s = _run_config(ctx, "std", n_dbg, profile="dev")
        for v in viols:
            ctx.violation(f"dynmock:std-debug:{'+'.join(v['tags'])}:{v['at'].split(' ')[0]}", dict(v, config="std (debug build)"))
        per_config["std-debug"] = {"cases": sum(w["cases"] for w in workers), "build_s": round(build_s, 2),
                                   "distinct_nontrivial": summary["distinct_nontrivial"]}
        total_eval += sum(w["cases"] for w in workers)

    concurrent = None
    if ctx.prop in ("C08", "C02", "C03", "C04", "C18"):
        # the concurrent facet: several threads panicking / matching at once (engine C workloads)
        from . import engine_c
        b = engine_c.C10_BUDGET[ctx.tier]
        ctl, v1 = engine_c.run_sched(ctx, "c10", b["controlled"] // 2)
        engine_c.report(ctx, v1, ctx.prop, "controlled schedules")
        st, v2 = engine_c.run_sched(ctx, "c10-stress", b["stress"] // 2,
                                    ["--threads", "16", "--calls", str(b["stress_calls"])])
        engine_c.report(ctx, v2, ctx.prop, "real-thread stress")
        concurrent = {"controlled_executions": ctl["executions"], "distinct_schedules": ctl["distinct_schedules"],
                      "stress_runs": st["executions"], "controlled_stats": ctl["stats"], "sites": ctl["sites"]}
        ctx.require(ctl["executions"] > 0 and st["executions"] > 0, "concurrent stage did not run")
        if ctx.prop == "C08":
            ctx.require(any(k.startswith("call_mockpanic_") for k in ctl["stats"]),
                        "no mock-induced panic under a controlled schedule")
            # errors induced while the original is already being torn down (destructor of a lent value)
            late, v5 = engine_c.run_sched(ctx, "c08-late-error", 64 if ctx.tier == "quick" else 2000)
            engine_c.report(ctx, v5, "C08", "error during teardown")
            ctx.require(late["stats"].get("late_errors", 0) > 0, "the late-error stage did not run")
            concurrent["late_error_scenarios"] = late["executions"]
            total_eval += late["executions"]
        total_eval += ctl["executions"] + st["executions"]
        total_distinct += ctl["distinct_schedules"]
        if ctx.prop == "C02":
            # single-use values over composite return shapes (C12 workloads): the second request must panic
            su, v3 = engine_c.run_sched(ctx, "c12", 160 if ctx.tier == "quick" else 4000)
            engine_c.report(ctx, v3, "C02", "single-use values over return shapes")
            concurrent["single_use_shape_executions"] = su["executions"]
            total_eval += su["executions"]
            # a long then()-series of once() stages consumed by several free-running threads: every position of the
            # chain is handed out exactly once, counted over all callers
            ser, v4 = engine_c.run_sched(ctx, "c13-series-stress", 96 if ctx.tier == "quick" else 1600)
            engine_c.report(ctx, v4, "C02", "then()-series under real threads")
            ctx.require(ser["stats"].get("series_calls", 0) > 0, "the series stress made no calls")
            concurrent["series_stress_executions"] = ser["executions"]
            total_eval += ser["executions"]

    compile_probe = None
    if ctx.prop == "C14":
        from . import compile_probe as cp
        compile_probe = cp.run(ctx, "C14")

    ctx.coverage.update({
        "compile_probe": compile_probe,
        "concurrent_stage": concurrent,
        "evaluations": total_eval,
        "distinct_nontrivial": total_distinct,
        "rule": RULES.get(ctx.prop, RULES["default"]),
        "samples": samples,
        "per_config": per_config,
        "exhaustive": False,
    })
    ctx.assumptions += [
        "Spec-M (engines/harness/src/spec.rs) states the property correctly; it is cross-checked on every run against "
        "deliberately wrong variants of itself (spec_variants_distinguishing_cases)",
        "argument domain {0,1,2} per argument; universe of 11 mocked methods (engines/harness/src/universe.rs)",
        "hooks H1 (DynClause) and H2 (snapshot) forward/read only",
    ]
    if ctx.prop == "C14":
        # "a configured return that cannot be produced in the current feature set": composite returns in the no_std
        # build without a lock (generated programs)
        from . import engine_b_more
        engine_b_more.nolock_returns_stage(ctx)


def replay(prop, path):
    with open(path) as f:
        v = json.load(f)
    config = v.get("config", "std")
    bindir, _ = common.build_harness(config, bins=["dynmock"])
    cmd = [os.path.join(bindir, "dynmock"), "replay", "--prop", prop, "--seed", str(v["seed"]),
           "--worker", str(v["worker"]), "--index", str(v["index"])]
    return subprocess.run(cmd, env=common.base_env()).returncode
