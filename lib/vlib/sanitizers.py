"""Sanitizer stages of the thorough tier: the same sched workloads under ThreadSanitizer, Miri and valgrind memcheck.

A clean run is reported as "no report on K executions", never as memory safety."""
import json
import os
import re
import subprocess
from concurrent.futures import ThreadPoolExecutor

from . import common


def _parse_child(stdout):
    summary, viols = None, []
    for line in stdout.splitlines():
        if line.startswith("WORKER_SUMMARY "):
            summary = json.loads(line.split(" ", 1)[1])
        elif line.startswith("VIOLATION_CASE "):
            viols.append(json.loads(line.split(" ", 1)[1]))
    return summary, viols


def _record(ctx, tool, what, info):
    ctx.coverage.setdefault("sanitizer_stages", []).append({"tool": tool, "workload": what, **info})


def tsan_stage(ctx, what, extra, cases, tag, shards=4):
    env = common.base_env()
    env["RUSTFLAGS"] = "--cfg unimock_verif -Zsanitizer=thread"
    tdir = os.path.join(common.TARGET, "tsan")
    cmd = ["cargo", "+nightly", "build", "--offline", "-Zbuild-std", "--target", "x86_64-unknown-linux-gnu",
           "--target-dir", tdir, "--release", "-p", "harness", "--bin", "sched", "--features", "cfg-std"]
    r = subprocess.run(cmd, cwd=common.ENGINES_DIR, env=env, stdout=subprocess.PIPE, stderr=subprocess.STDOUT, text=True)
    if r.returncode != 0:
        ctx.inconclusive.append(f"ThreadSanitizer build failed: {r.stdout[-600:]}")
        return
    exe = os.path.join(tdir, "x86_64-unknown-linux-gnu", "release", "sched")
    renv = common.base_env()
    renv["TSAN_OPTIONS"] = "halt_on_error=0 exitcode=66 second_deadlock_stack=1"

    def shard(w):
        c = [exe, "child", "--what", what, "--cases", str(max(1, cases // shards)), "--seed", str(ctx.seed),
             "--worker", str(w)] + extra
        try:
            return subprocess.run(c, env=renv, stdout=subprocess.PIPE, stderr=subprocess.PIPE, text=True, timeout=1800)
        except subprocess.TimeoutExpired:
            return None
    with ThreadPoolExecutor(max_workers=shards) as ex:
        results = list(ex.map(shard, range(shards)))
    reports, execs = [], 0
    for res in results:
        if res is None:
            ctx.inconclusive.append(f"ThreadSanitizer run of {what} exceeded the watchdog")
            continue
        summary, viols = _parse_child(res.stdout)
        execs += summary["executions"] if summary else 0
        blocks = res.stderr.split("WARNING: ThreadSanitizer")[1:]
        for b in blocks:
            first = next((l.strip() for l in b.splitlines() if "/repo/" in l or "unimock" in l), b.splitlines()[0])
            reports.append(first[:200])
        for v in viols:
            if tag in v["tags"]:
                ctx.violation(f"tsan-run:{v['what']}:{'+'.join(v['tags'])}", dict(v))
        if summary is None and not blocks:
            ctx.inconclusive.append(f"ThreadSanitizer run of {what} produced no summary (exit {res.returncode}): {res.stderr[-300:]}")
    dedup = sorted(set(reports))
    for rep in dedup:
        ctx.violation(f"tsan:{what}:{rep}", {"what": f"ThreadSanitizer report while running {what}: {rep}",
                                              "at": what, "expected": "no data race report", "observed": rep})
    _record(ctx, "ThreadSanitizer (-Zsanitizer=thread, -Zbuild-std)", what,
            {"executions": execs, "report_blocks": len(reports), "distinct_reports": len(dedup)})


def miri_stage(ctx, what, extra, cases, tag, shards=4, tree_borrows=True):
    env = common.base_env()
    tdir = os.path.join(common.TARGET, "miri")
    flag_sets = ["-Zmiri-disable-isolation"]
    if tree_borrows:
        flag_sets.append("-Zmiri-disable-isolation -Zmiri-tree-borrows")

    def shard(args):
        w, flags = args
        e = dict(env)
        e["MIRIFLAGS"] = flags
        c = ["cargo", "+nightly", "miri", "run", "--offline", "--target-dir", tdir, "-p", "harness", "--bin", "sched",
             "--features", "cfg-std", "--", "child", "--what", what, "--cases", str(max(1, cases // shards)),
             "--seed", str(ctx.seed), "--worker", str(w)] + extra
        try:
            return flags, subprocess.run(c, cwd=common.ENGINES_DIR, env=e, stdout=subprocess.PIPE,
                                         stderr=subprocess.PIPE, text=True, timeout=3600)
        except subprocess.TimeoutExpired:
            return flags, None
    # first one alone (builds the sysroot and the crate), then the rest in parallel
    jobs = [(w, f) for f in flag_sets for w in range(shards)]
    results = [shard(jobs[0])]
    with ThreadPoolExecutor(max_workers=shards) as ex:
        results += list(ex.map(shard, jobs[1:]))
    execs, errors = 0, []
    for flags, res in results:
        if res is None:
            ctx.inconclusive.append(f"Miri run of {what} exceeded the watchdog")
            continue
        summary, viols = _parse_child(res.stdout)
        execs += summary["executions"] if summary else 0
        for m in re.finditer(r"^error: (Undefined Behavior|.*[Dd]ata race|memory leaked|unsupported operation)[^\n]*", res.stderr, re.M):
            errors.append((flags, m.group(0)[:240]))
        for v in viols:
            if tag in v["tags"]:
                ctx.violation(f"miri-run:{v['what']}:{'+'.join(v['tags'])}", dict(v))
        if summary is None and not errors:
            ctx.inconclusive.append(f"Miri run of {what} produced no summary (exit {res.returncode}): {res.stderr[-400:]}")
    for flags, e in sorted(set(errors)):
        if "unsupported operation" in e:
            ctx.inconclusive.append(f"Miri cannot run {what}: {e}")
        else:
            ctx.violation(f"miri:{what}:{e}", {"what": f"Miri report while running {what} ({flags}): {e}", "at": what,
                                                "expected": "no undefined behaviour / data race / leak report", "observed": e})
    _record(ctx, "Miri (Stacked Borrows" + (" and Tree Borrows" if tree_borrows else "") + ")", what,
            {"executions": execs, "reports": len(errors)})


def valgrind_stage(ctx, what, extra, cases, tag):
    bindir, _ = common.build_harness("std", bins=["sched"])
    exe = os.path.join(bindir, "sched")
    c = ["valgrind", "--error-exitcode=99", "--leak-check=full", "--errors-for-leak-kinds=definite,indirect",
         "--show-leak-kinds=definite,indirect", "-q", exe, "child", "--what", what, "--cases", str(cases),
         "--seed", str(ctx.seed), "--worker", "0"] + extra
    try:
        res = subprocess.run(c, env=common.base_env(), stdout=subprocess.PIPE, stderr=subprocess.PIPE, text=True, timeout=3600)
    except subprocess.TimeoutExpired:
        ctx.inconclusive.append(f"valgrind run of {what} exceeded the watchdog")
        return
    summary, viols = _parse_child(res.stdout)
    for v in viols:
        if tag in v["tags"]:
            ctx.violation(f"valgrind-run:{v['what']}:{'+'.join(v['tags'])}", dict(v))
    if res.returncode == 99:
        first = next((l for l in res.stderr.splitlines() if "lost in loss record" in l or "Invalid" in l), res.stderr[:200])
        ctx.violation(f"valgrind:{what}:{first[:120]}", {"what": f"valgrind memcheck report while running {what}: {first}",
                                                         "at": what, "expected": "no invalid access, nothing definitely/indirectly lost",
                                                         "observed": res.stderr[-1200:]})
    elif summary is None:
        ctx.inconclusive.append(f"valgrind run of {what} produced no summary (exit {res.returncode}): {res.stderr[-300:]}")
    _record(ctx, "valgrind memcheck", what, {"executions": summary["executions"] if summary else 0,
                                             "exit": res.returncode})
