"""C12 / C13 checks on the sched engine."""
from . import common
from . import engine_c

BUDGET = {
    "quick": dict(c12=480, c12_stress=160, c12_reps=40, c13=4000, c13_ops=40, c13_threads=320,
                  c13_stress=96, bigchain=20000),
    "thorough": dict(c12=16000, c12_stress=3200, c12_reps=100, c13=200000, c13_ops=120, c13_threads=8000,
                     c13_stress=1600, bigchain=100000),
}


def run_c12(ctx):
    b = BUDGET[ctx.tier]
    ctl, v1 = engine_c.run_sched(ctx, "c12", b["c12"])
    engine_c.report(ctx, v1, "C12", "controlled schedules")
    st, v2 = engine_c.run_sched(ctx, "c12-stress", b["c12_stress"], ["--reps", str(b["c12_reps"])])
    engine_c.report(ctx, v2, "C12", "real-thread stress")
    s = ctl["stats"]
    ctx.require(ctl["exhaustive_cases"] > 0, "no C12 case was enumerated exhaustively")
    ctx.require(s.get("req_delivered", 0) > 0 and s.get("req_panic", 0) > 0,
                "controlled runs saw no delivery or no refused request")
    for shape in ["Tok", "Opt", "ResMix", "TupMix", "OptMix", "PollMix", "Tup4", "CTok", "ResC", "TupC", "PollC", "OptC", "Tup4C"]:
        ctx.require(s.get("shape_" + shape, 0) > 0, f"no case with return shape {shape}")
    ctx.require(any("private.rs" in x and "lock_want" in x for x in ctl["sites"]),
                "the single-use slot's lock site was never reached under the scheduler")
    ctx.require(st["stats"].get("stress_requests", 0) > 0, "stress made no requests")
    compile_probe = None
    try:
        from . import compile_probe as cp
        compile_probe = cp.run(ctx, "C12")
    except ImportError:
        ctx.notes.append("compile probe not present: the compile-time half of C12 is not sampled in this run")
    ctx.coverage.update({
        "evaluations": ctl["executions"] + st["executions"],
        "distinct_nontrivial": ctl["distinct_schedules"] + st["distinct_cases"],
        "rule": "a case = (return shape with instrumented owned leaves, single-use or repeatable setup, 1-4 threads "
                "x 0-3 requests through clones or a shared &Unimock); controlled: every schedule of cases with <= 4 "
                "requests is enumerated at the H3 lock sites, larger ones sampled; stress: 6-8 free-running threads, "
                "repeated. Oracle = conservation over the drop/clone registry: deliveries <= 1 per single-use leaf, "
                "every other request refused by a mock panic, delivered values alive, clones' parent = the stored "
                "original, original intact until the last instance goes, every constructed value dropped exactly once. "
                "distinct = distinct (case, schedule) pairs.",
        "samples": ctl["samples"] + st["samples"][:1],
        "controlled": {k: ctl[k] for k in ("cases", "executions", "distinct_schedules", "exhaustive_cases",
                                           "exhaustive_schedules", "sites", "stats", "wall_s")},
        "stress": {k: st[k] for k in ("cases", "executions", "stats", "wall_s")},
        "compile_probe": compile_probe,
        "exhaustive": False,
    })
    # strict/partial mocks with real functions: an exhausted single-use value must still refuse (Spec-M histories)
    from . import engine_a
    workers, dviols, dsummary, _ = engine_a._run_config(ctx, "std", 200_000 if ctx.tier == "quick" else 4_000_000)
    dstats = engine_a._merge(w["stats"] for w in workers)
    for v in dviols:
        ctx.violation(f"dynmock:std:{'+'.join(v['tags'])}:{v['at'].split(' ')[0]}", dict(v))
    ctx.require(dstats.get("mockpanic_CannotReturnTwice", 0) > 0, "dynmock stage saw no refused second request")
    ctx.coverage["dynmock_stage"] = {"cases": sum(w["cases"] for w in workers),
                                     "refused_second_requests": dstats.get("mockpanic_CannotReturnTwice", 0)}
    ctx.coverage["evaluations"] += sum(w["cases"] for w in workers)
    ctx.assumptions += [
        "drop/clone registry in engines/harness/src/toks.rs is keyed by value id and updated at the boundary",
        "interleavings at the granularity of the H3 yield points; real preemption only in the stress stage",
    ]
    if ctx.tier == "thorough":
        from . import sanitizers
        sanitizers.tsan_stage(ctx, "c12-stress", ["--reps", "10"], cases=32, tag="C12")
        sanitizers.miri_stage(ctx, "c12-stress", ["--reps", "1"], cases=6, tag="C12")
        sanitizers.valgrind_stage(ctx, "c12-stress", ["--reps", "3"], cases=8, tag="C12")


def run_c13(ctx):
    b = BUDGET[ctx.tier]
    seq, v1 = engine_c.run_sched(ctx, "c13", b["c13"], ["--ops", str(b["c13_ops"])])
    engine_c.report(ctx, v1, "C13", "sequential lending sequences")
    thr, v2 = engine_c.run_sched(ctx, "c13-threads", b["c13_threads"])
    engine_c.report(ctx, v2, "C13", "controlled schedules")
    st, v3 = engine_c.run_sched(ctx, "c13-threads-stress", b["c13_stress"])
    engine_c.report(ctx, v3, "C13", "real-thread stress")
    ser, v5 = engine_c.run_sched(ctx, "c13-series", b["c13_threads"] // 2)
    engine_c.report(ctx, v5, "C13", "then()-series of borrowed returns, controlled schedules")
    sers, v6 = engine_c.run_sched(ctx, "c13-series-stress", b["c13_stress"])
    engine_c.report(ctx, v6, "C13", "then()-series of borrowed returns, stress")
    ctx.require(ser["stats"].get("series_calls", 0) > 0 and sers["stats"].get("series_calls", 0) > 0,
                "the borrowed-return series workload made no calls")
    # a stack overflow would kill the worker: that is a violation, not an inconclusive run
    n_inconclusive = len(ctx.inconclusive)
    try:
        big, v4 = engine_c.run_sched(ctx, "c13-bigchain", 1, ["--len", str(b["bigchain"]), "--jobs", "1"])
        engine_c.report(ctx, v4, "C13", "long chain drop")
        died = [r for r in ctx.inconclusive[n_inconclusive:] if "workers died" in r]
    except common.Inconclusive as e:
        big, died = None, [str(e)]
    if died:
        del ctx.inconclusive[n_inconclusive:]
        ctx.violation("sched:c13-bigchain:crash", {
            "what": "c13-bigchain", "at": f"dropping an instance that lent {b['bigchain']} values",
            "expected": "iterative drop, every value dropped once", "observed": f"the process died: {died}",
            "seed": ctx.seed, "worker": 0, "index": 0})
    ctx.require(seq["stats"].get("lend_steps", 0) > 0, "no lending step ran")
    ctx.require(any("value_chain.rs" in x for x in thr["sites"]),
                "the value chain's insertion site was never reached under the scheduler")
    ctx.coverage.update({
        "evaluations": seq["executions"] + thr["executions"] + st["executions"] + ser["executions"] + sers["executions"] + 1,
        "borrowed_return_series": {"controlled_executions": ser["executions"], "stress_executions": sers["executions"],
                                   "calls": ser["stats"].get("series_calls", 0) + sers["stats"].get("series_calls", 0),
                                   "distinct_schedules": ser["distinct_schedules"]},
        "distinct_nontrivial": seq["distinct_cases"] + thr["distinct_schedules"] + st["distinct_cases"],
        "rule": "sequential: random phases of make_ref (3 value types) / borrowed returns (returns(), Option, str, "
                "via the delegation helper) / make_mut / l_mut / a non-lending &mut provided method on an original and "
                "a clone; after EVERY step all live references are re-validated (address, id, checksum, pairwise "
                "distinct, not dropped). threads: 2-8 threads lending from one shared &Unimock under controlled "
                "schedules (ChainInsert sites) and free-running. End of every case: drop order checks over the "
                "registry (clone's values go with the clone, original's and shared ones only with the original, every "
                "value exactly once). distinct = distinct seeded sequences / (case, schedule) pairs; all have >= 2 steps.",
        "samples": seq["samples"][:2] + thr["samples"][:1],
        "lend_steps_validated": seq["stats"].get("lend_steps", 0) + thr["stats"].get("lend_steps", 0)
                                + st["stats"].get("lend_steps", 0),
        "sequential": {k: seq[k] for k in ("cases", "executions", "stats", "wall_s")},
        "controlled": {k: thr[k] for k in ("cases", "executions", "distinct_schedules", "sites", "stats", "wall_s")},
        "stress": {k: st[k] for k in ("cases", "executions", "stats", "wall_s")},
        "long_chain": big and big["stats"],
        "exhaustive": False,
    })
    ctx.assumptions += [
        "unimock is forbid(unsafe_code); memory-level validity of lent references rests on once_cell/polonius and is "
        "sampled by the Miri / valgrind stages of the thorough tier",
        "registry keyed by value id (engines/harness/src/toks.rs)",
    ]
    if ctx.tier == "thorough":
        from . import sanitizers
        sanitizers.miri_stage(ctx, "c13", ["--ops", "12"], cases=6, tag="C13")
        sanitizers.miri_stage(ctx, "c13-threads-stress", ["--ops", "4", "--threads", "3"], cases=4, tag="C13")
        sanitizers.tsan_stage(ctx, "c13-threads-stress", ["--ops", "100"], cases=32, tag="C13")
        sanitizers.valgrind_stage(ctx, "c13", ["--ops", "30"], cases=16, tag="C13")


def run(ctx):
    if ctx.prop == "C12":
        return run_c12(ctx)
    if ctx.prop == "C13":
        return run_c13(ctx)
    raise common.Inconclusive(f"no sched workload for {ctx.prop}")
