"""Engine B checks beyond C05: C15 (default delegation), C16 (unmock), later C06/C17/C19/C20."""
import json
import os
import random
import sys

from . import common
from . import engine_b

sys.path.insert(0, os.path.join(common.ROOT, "gen"))
import shapegen as sg  # noqa: E402
import shapegen2 as sg2  # noqa: E402

BUDGET = {"quick": dict(c15=280, c16=160), "thorough": dict(c15=6000, c16=3000)}


def _run_generic(ctx, tag, shapes, render, check, sig_prefix):
    modules, exps = [], {}
    for i, s in enumerate(shapes):
        text, exp = render(s, i)
        modules.append((i, text))
        exps[i] = exp
    events, errors, st = engine_b.build_and_run(ctx, tag, modules)
    checked = 0
    findings = {}
    for i, s in enumerate(shapes):
        if i in errors:
            ctx.violation(f"{sig_prefix}:expansion-error:{s.key()}", {
                "what": "a generated program of the calibrated grammar no longer compiles",
                "at": f"shape {i}", "case": s.key(), "expected": "compiles", "observed": "; ".join(errors[i])[:800]})
            continue
        why = check(exps[i], events.get(i, []))
        checked += 1
        if why:
            findings[i] = why
    return exps, events, errors, st, checked, findings


def classify_c15(shape, why):
    """Signature of a C15 violation: known findings are keyed on the exact situation."""
    if shape.receiver in ("rc", "arc") and shape.sole_owner and "clones still alive" in why:
        return "F1:rc-arc-sole-owner-provided-method"
    return None


def run_c15(ctx):
    rng = random.Random(ctx.seed * 31 + 15)
    shapes = sg2.default_shapes(rng, BUDGET[ctx.tier]["c15"])
    exps, events, errors, st, checked, findings = _run_generic(
        ctx, "default", shapes, sg2.render_default, sg2.check_default, "shapegen:default")
    for i, why in findings.items():
        s = shapes[i]
        sig = classify_c15(s, why) or f"shapegen:default:{s.key()}"
        ctx.violation(sig, {"what": why, "at": f"shape {i}", "case": s.key(),
                            "expected": json.dumps(exps[i])[:800], "observed": json.dumps(events.get(i, []))[:1200]})
    feats = {}
    for s in shapes:
        for k in (f"receiver_{s.receiver}", f"route_{s.route}", f"partial_{s.partial}", f"body_calls_{len(s.body_calls)}",
                  f"borrowed_first_{s.borrowed_first}", f"direct_{min(s.direct_calls, 2)}", f"unmet_{s.unmet}",
                  f"sole_owner_{s.sole_owner}"):
            feats[k] = feats.get(k, 0) + 1
    for r in ["ref", "mut", "owned", "rc", "arc", "pin"]:
        ctx.require(feats.get("receiver_" + r, 0) > 0, f"no shape with receiver {r}")
    for r in ["fallthrough", "clause_next", "clause_each"]:
        ctx.require(feats.get("route_" + r, 0) > 0, f"no shape with route {r}")
    ctx.require(feats.get("partial_True", 0) > 0 and feats.get("borrowed_first_True", 0) > 0
                and feats.get("unmet_True", 0) > 0, "partial / borrowed-first / unmet scenarios missing")
    ctx.coverage.update({
        "evaluations": checked,
        "distinct_nontrivial": len({s.key() for s in shapes if s.body_calls or s.params}),
        "rule": "a case is one generated trait with three required methods and a provided method (receiver &self / "
                "&mut self / self / Box / Rc / Arc / Pin x 0-3 parameters of 11 kinds x body calling 0-3 required "
                "methods) reached by fall-through (strict and partial) or an applies_default_impl() clause (ordered: "
                "shares the slot sequence with the required calls; unordered: exact counts shared with direct calls), "
                "optionally after a borrowed delegation on the same original and with direct calls mixed in; the "
                "result must equal the generator's evaluation of the body, the body and the required-method answers "
                "must log the right arguments, verification must pass (or, for by-value receivers with an unmet "
                "clause, fail exactly when the travelling original is dropped). distinct by shape key; non-trivial = "
                "body calls a required method or has parameters.",
        "samples": [exps[i]["shape"] for i in list(exps)[:3]],
        "shape_features": feats, "programs": len(shapes), "compile_errors": len(errors), **st,
        "exhaustive": False,
    })
    ctx.assumptions += ["required methods are answered by x*3+j; the body is evaluated by the generator in Python"]


def classify_c16(shape, why):
    # F2: &mut self methods cannot be unmocked although a function is registered
    tag = why.split(":")[0]
    try:
        mi = int(tag.split("_")[0][1:])
        m = shape.methods[mi]
    except (ValueError, IndexError):
        return None
    if m.receiver in ("mut", "pin") and m.form != "none" and "ran 0 times" in why and "cannot be unmocked" in why:
        return "F2:mut-self-unmock-fn-registered"
    return None


def run_c16(ctx):
    rng = random.Random(ctx.seed * 31 + 16)
    shapes = sg2.unmock_shapes(rng, BUDGET[ctx.tier]["c16"])
    exps, events, errors, st, checked, findings = _run_generic(
        ctx, "unmock", shapes, sg2.render_unmock, sg2.check_unmock, "shapegen:unmock")
    for i, why in findings.items():
        s = shapes[i]
        sig = classify_c16(s, why) or f"shapegen:unmock:{s.key()}"
        ctx.violation(sig, {"what": why, "at": f"shape {i}", "case": s.key(),
                            "expected": json.dumps(exps[i])[:800], "observed": json.dumps(events.get(i, []))[:1200]})
    feats = {}
    for s in shapes:
        feats[f"methods_{len(s.methods)}"] = feats.get(f"methods_{len(s.methods)}", 0) + 1
        feats[f"api_{s.api}"] = feats.get(f"api_{s.api}", 0) + 1
        if s.skipped_at:
            feats["with_skipped_fn"] = feats.get("with_skipped_fn", 0) + 1
        if s.provided:
            feats["with_provided_method"] = feats.get("with_provided_method", 0) + 1
        for m in s.methods:
            for k in (f"form_{m.form}", f"receiver_{m.receiver}", f"async_{m.asyncness}", f"reenter_{m.reenter}",
                      f"arity_{len(m.params)}"):
                feats[k] = feats.get(k, 0) + 1
    for k in ["form_path", "form_params", "form_none", "async_async_fn", "reenter_True", "with_skipped_fn",
              "api_hidden", "methods_4", "receiver_pin", "receiver_mut", "with_provided_method"]:
        ctx.require(feats.get(k, 0) > 0, f"no unmock shape with {k}")
    n_calls = sum(len(e["calls"]) for e in exps.values())
    ctx.coverage.update({
        "evaluations": n_calls,
        "distinct_nontrivial": len({s.key() for s in shapes}),
        "rule": "a case is one generated trait with 1-4 methods (0-3 parameters of 11 kinds, &self/&mut self, sync/async) "
                "whose unmock_with list mixes the three forms (path, path(params..) with reordered parameters, _) and "
                "may contain entries for skipped associated functions; every method is unmocked through an empty "
                "partial mock and through applies_unmocked() in a strict mock; the real function logs what it "
                "receives (probes, addresses), may call back into the mock, and its result must come back unchanged; "
                "`_` entries must panic naming the method. evaluations = unmocked calls judged.",
        "samples": [exps[i]["shape"] for i in list(exps)[:3]],
        "shape_features": feats, "programs": len(shapes), "compile_errors": len(errors), **st,
        "exhaustive": False,
    })


def _pattern_cases(ctx, n):
    import patgen
    rng = random.Random(ctx.seed * 31 + 6)
    cases, seen = [], set()
    # matching!() on methods of arity 0..3 must accept everything: the empty pattern is always included
    tries = 0
    while len(cases) < n and tries < n * 40:
        tries += 1
        c = patgen.gen_case(rng)
        if patgen.supported(c) is not None or c.key() in seen:
            continue
        seen.add(c.key())
        cases.append(c)
    return cases


def _run_patterns(ctx, n):
    import patgen
    cases = _pattern_cases(ctx, n)
    modules, exps = [], {}
    for i, c in enumerate(cases):
        text, exp = patgen.render_case(c, i)
        modules.append((i, text))
        exps[i] = exp
    events, errors, st = engine_b.build_and_run(
        ctx, "patterns", modules, per_crate=40, main_extra="mod prelude;",
        extra_files={"prelude.rs": "#![allow(dead_code)]\n" + patgen.PRELUDE})
    return cases, exps, events, errors, st


PAT_BUDGET = {"quick": 400, "thorough": 6000}


def run_c06(ctx):
    import patgen
    ctx.level = "translation_validation"
    cases, exps, events, errors, st = _run_patterns(ctx, PAT_BUDGET[ctx.tier])
    disagreements = 0
    evaluations = 0
    feats = {}
    for i, c in enumerate(cases):
        if i in errors:
            ctx.violation(f"patgen:expansion-error:{c.key()}", {
                "what": "a matching! invocation of the calibrated grammar no longer compiles",
                "at": f"pattern {i}", "case": c.matching_src(), "expected": "compiles",
                "observed": "; ".join(errors[i])[:800]})
            continue
        why, oracle_disagrees = patgen.check_bits(exps[i], events.get(i, []))
        evaluations += exps[i]["tuples"] * 2
        if oracle_disagrees:
            disagreements += 1
            ctx.inconclusive.append(f"the two independent oracles (generator evaluator, rustc match) disagree on "
                                    f"matching!({c.matching_src()}): my oracle is wrong, not unimock")
            continue
        if why:
            ctx.violation(f"patgen:{c.key()}", {"what": why, "at": f"pattern {i}",
                                                "case": f"matching!({c.matching_src()}) on ({', '.join(c.types)})",
                                                "expected": exps[i]["bits"], "observed": json.dumps(events.get(i, []))[:600]})
        for k in ([f"arity_{len(c.types)}", f"alts_{len(c.alts)}", "guard" if c.guard else "no_guard"]
                  + [f"type_{t}" for t in set(c.types)]
                  + (["cmp"] if any(p.cmp for a in c.alts for p in a) else [])
                  + (["guard_with_cmp"] if c.guard and any(p.cmp for a in c.alts for p in a) else [])):
            feats[k] = feats.get(k, 0) + 1
    for k in ["arity_0", "arity_1", "arity_2", "arity_3", "alts_2", "guard", "cmp", "guard_with_cmp"] + ["type_" + t for t in patgen.TYPES]:
        ctx.require(feats.get(k, 0) > 0, f"no pattern case with {k}")
    ctx.coverage.update({
        "programs": len(cases),
        "disagreements_checked": disagreements,
        "evaluations": evaluations,
        "distinct_nontrivial": len({c.key() for c in cases if c.types}),
        "rule": "a program is one generated matching! invocation (literals, ranges, wildcards, bindings, @, or-patterns, "
                "tuple/struct/enum/Option patterns, slice patterns with rest, string literals against &str/String/"
                "newtype, eq!/ne!, up to two top-level alternatives, guards over bindings incl. ||) on a method of "
                "arity 0-3 over 11 argument types; it is evaluated on EVERY tuple of the finite domain (4-5 values per "
                "argument) in unordered (diagnostics off) and ordered (diagnostics on) mode and compared with the "
                "generator's evaluation of the pattern; a hand-shaped Rust match compiled next to it must agree with "
                "the generator (else the case is discarded as an oracle disagreement). evaluations = tuples x 2 modes.",
        "samples": [f"matching!({c.matching_src()}) on ({', '.join(c.types)})" for c in cases[:4]],
        "features": feats, "compile_errors": len(errors), **st,
        "exhaustive": False,
    })
    ctx.assumptions += ["the argument domains are exhaustive per case, the set of patterns is sampled",
                        "calibration: <= 2 top-level alternatives (3+ do not parse in the pinned macro)"]


def run_c19(ctx):
    import patgen
    # (a) call rendering for every parameter kind, three error kinds per shape
    b = engine_b.BUDGET[ctx.tier]
    shapes = engine_b.select_shapes(ctx, sg.core_shapes_forward(), b["core"] // 2, b["rand"] // 2,
                                    mode_ok=lambda s: s.asyncness == "sync")
    exps, events, errors, st, checked, findings = _run_generic(
        ctx, "message", shapes, sg.render_message, sg.check_message, "shapegen:message")
    for i, why in findings.items():
        s = shapes[i]
        sig = "F4:impossible-slot-rendered-as-Impossible" if why.startswith("F4:") else f"shapegen:message:{s.key()}"
        ctx.violation(sig, {"what": why, "at": f"shape {i}", "case": s.key(),
                                                      "expected": json.dumps(exps[i])[:600],
                                                      "observed": json.dumps(events.get(i, []))[:1200]})
    # (b) pattern naming, file:line and mismatch positions on the matching! programs
    cases, pexps, pevents, perrors, pst = _run_patterns(ctx, PAT_BUDGET[ctx.tier] // 2)
    n_msgs = 0
    n_positions = 0
    for i, c in enumerate(cases):
        if i in perrors:
            continue
        why = patgen.check_messages(pexps[i], pevents.get(i, []))
        n_msgs += sum(1 for e in pevents.get(i, []) if e["k"] == "reject_msg")
        if pexps[i]["per_arg_rejections"] is not None:
            n_positions += 1
        if why:
            ctx.violation(f"patgen:message:{c.key()}", {"what": why, "at": f"pattern {i}",
                                                        "case": f"matching!({c.matching_src()}) on ({', '.join(c.types)})",
                                                        "expected": "see what", "observed": why[:800]})
    ctx.require(n_msgs > 0 and n_positions > 0, "no mismatch message / no single-alternative pattern observed")
    feats = engine_b.shape_features(shapes)
    for k in sg.KINDS:
        ctx.require(feats.get("param_" + k, 0) > 0, f"no message shape with parameter kind {k}")
    ctx.coverage.update({
        "evaluations": checked * 3 + n_msgs,
        "distinct_nontrivial": len({s.key() for s in shapes if s.params}) + len({c.key() for c in cases if c.types}),
        "rule": "(a) every generated method shape (as C05, sync) is called on a mock without clause, with a rejecting "
                "unordered pattern and with a rejecting ordered pattern; each panic text must start with "
                "Trait::method(d1, .., dn), di = rustc's own Debug rendering computed at the call site ('?' for "
                "non-Debug types). (b) every rejected tuple of every generated matching! pattern (as C06): the "
                "message must name the pattern with the file:line captured on the same source line, by its source "
                "text where the doc renderer elides nothing, and - for guard-free single-alternative patterns - "
                "list exactly the argument positions whose sub-pattern rejects the actual value, each with that value. "
                "(c) dynmock histories: every mock-induced panic kind must name its method and pattern.",
        "samples": [exps[i]["shape"] for i in list(exps)[:2]] + [f"matching!({c.matching_src()})" for c in cases[:2]],
        "messages_checked": checked * 3 + n_msgs, "single_alternative_patterns": n_positions,
        "shape_features": feats, "programs": len(shapes) + len(cases), **st,
        "exhaustive": False,
    })
    ctx.assumptions += ["built without the pretty-print feature; ANSI escapes are stripped anyway"]
    dynmock_stage(ctx, 200_000 if ctx.tier == "quick" else 4_000_000, gate=False)
    # messages of calls that overlap in time: under controlled schedules every mock-induced panic message must name
    # the method and pattern of a sequential explanation of the history
    from . import engine_c
    b = engine_c.C10_BUDGET[ctx.tier]
    ctl, v = engine_c.run_sched(ctx, "c10", b["controlled"] // 2)
    engine_c.report(ctx, v, "C19", "messages under controlled schedules")
    ctx.require(any(k.startswith("call_mockpanic_") for k in ctl["stats"]),
                "no mock-induced panic under a controlled schedule")
    ctx.coverage["concurrent_messages_stage"] = {"executions": ctl["executions"],
                                                 "distinct_schedules": ctl["distinct_schedules"]}
    ctx.coverage["evaluations"] += ctl["executions"]


RET_BUDGET = {"quick": 360, "thorough": 6000}


def nolock_returns_stage(ctx):
    """C14: 'a configured return that cannot be produced in the current feature set fails at construction', over
    composite return types in the no_std build without a lock (generated programs, single-use paths)."""
    import retgen
    accepted = [retgen.to_tuple(t) for t in json.load(open(os.path.join(common.ROOT, "gen", "accepted", "returns.json")))]
    rng = random.Random(ctx.seed * 31 + 14)
    with_ref = [t for t in accepted if retgen.has_ref(t)]
    ownable = [t for t in with_ref if retgen.can_own(t)]
    n = 120 if ctx.tier == "quick" else 1200
    cases = []
    k = 0
    while len(cases) < n:
        if k % 2 == 0:
            t = ownable[(k // 2 + ctx.seed) % len(ownable)]
            v = retgen.gen_value(t, rng, retgen.Counter(), force="owned")
        else:
            t = with_ref[(k // 2 + ctx.seed) % len(with_ref)]
            v = retgen.gen_value(t, rng, retgen.Counter(), force=("first" if k % 4 == 1 else None))
        cases.append((t, v, "some" if k % 3 else "once"))
        k += 1
    modules, exps = [], {}
    for i, (t, v, mode) in enumerate(cases):
        text, exp = retgen.render_nolock(t, v, mode, i)
        modules.append((i, text))
        exps[i] = exp
    events, errors, st = engine_b.build_and_run(
        ctx, "nolock_returns", modules, features=("critical-section",),
        extra_deps='critical-section = { version = "1.1.2", features = ["std"] }', per_crate=60)
    refused = accepted_n = 0
    for i, (t, v, mode) in enumerate(cases):
        if i in errors:
            ctx.violation(f"retgen:nolock:expansion-error:{json.dumps(t)}", {
                "what": "a generated program of the calibrated grammar no longer compiles (no_std without a lock)",
                "at": f"case {i}", "case": exps[i]["type"], "expected": "compiles", "observed": "; ".join(errors[i])[:600]})
            continue
        why = retgen.check_nolock(exps[i], events.get(i, []))
        if exps[i]["owned_leaves"] > 0:
            refused += 1
        else:
            accepted_n += 1
        if why:
            ctx.violation(f"retgen:nolock:{json.dumps([t, v, mode])}", {
                "what": why, "at": f"case {i}",
                "case": f"fn m(&self) -> {exps[i]['type']} configured {mode} with {exps[i]['value']} (no_std, no lock)",
                "expected": "refused at construction iff the value has an owned part", "observed": why[:800]})
    ctx.require(refused > 0 and accepted_n > 0, "no-lock returns stage: both outcomes must be exercised")
    ctx.coverage["nolock_returns_stage"] = {"programs": len(cases), "must_be_refused": refused,
                                            "must_be_accepted": accepted_n, **st}
    ctx.coverage["evaluations"] += len(cases)


def run_c17(ctx):
    import retgen
    accepted = [retgen.to_tuple(t) for t in json.load(open(os.path.join(common.ROOT, "gen", "accepted", "returns.json")))]
    rng = random.Random(ctx.seed * 31 + 17)
    with_ref = [t for t in accepted if retgen.has_ref(t)]
    owned_only = [t for t in accepted if not retgen.has_ref(t)]
    n = RET_BUDGET[ctx.tier]
    cases = []
    # first: every reference-carrying type that can hold an owned leaf, with a value that does hold one, on the
    # single-use paths (the second request must be refused) - rotated by the seed
    ownable = [t for t in with_ref if retgen.can_own(t)]
    for j, t in enumerate(ownable):
        c = retgen.Counter()
        v = retgen.gen_value(t, rng, c, force="owned")
        cases.append((t, v, ["some", "once", "some", "n2"][(j + ctx.seed) % 4], False))
    # and the same types with an owned leaf on the multi-use paths: every call must get the whole value again
    n_forced_single = len(cases)
    for j, t in enumerate(ownable):
        c = retgen.Counter()
        v = retgen.gen_value(t, rng, c, force="owned")
        cases.append((t, v, ["each", "n2", "al1"][(j + ctx.seed) % 3], False))
    # every reference-carrying type with a vector in it: the value whose vectors are all empty
    with_vec = [t for t in with_ref if '"vec"' in json.dumps(t)]
    for j, t in enumerate(with_vec):
        c = retgen.Counter()
        v = retgen.gen_value(t, rng, c, force="empty")
        cases.append((t, v, retgen.MODES[(j + ctx.seed) % len(retgen.MODES)], False))
    n += len(with_vec)
    # string / byte-slice leaves that are *empty* (a value like any other: `Some("")` is not `None`)
    with_text = [t for t in with_ref if any(x in json.dumps(t) for x in ('"ref_str"', '"ref_bytes"', '"static_str"'))]
    step = 1 if ctx.tier == "thorough" else 3
    n_blank = 0
    for j, t in enumerate(with_text):
        if (j + ctx.seed) % step:
            continue
        c = retgen.Counter()
        v = retgen.gen_value(t, rng, c, force="blank")
        cases.append((t, v, retgen.MODES[(j + ctx.seed) % len(retgen.MODES)], False))
        n_blank += 1
    n += n_blank
    # zero-sized leaves behind the same containers (marker types): multi-use and single-use paths
    for j, t in enumerate(retgen.ZST_TYPES):
        for mode in ("each", "some"):
            c = retgen.Counter()
            cases.append((t, retgen.gen_value(t, rng, c, force="first"), mode, False))
    n += 2 * len(retgen.ZST_TYPES)
    k = 0
    while len(cases) < n + 2 * len(ownable):
        # reference-carrying types dominate; every accepted one is visited in turn
        t = with_ref[k % len(with_ref)] if k % 4 != 3 else owned_only[(k // 4) % len(owned_only)]
        c = retgen.Counter()
        force = "first" if (k // len(with_ref)) % 3 == 0 else None
        v = retgen.gen_value(t, rng, c, force=force)
        mode = retgen.MODES[(k + k // len(with_ref)) % len(retgen.MODES)]
        # every fifth reference-carrying case ties its borrows to self through a named lifetime
        named = retgen.has_ref(t) and "static_str" not in json.dumps(t) and k % 5 == 2
        cases.append((t, v, mode, named))
        k += 1
    modules, exps = [], {}
    for i, (t, v, mode, named) in enumerate(cases):
        text, exp = retgen.render(t, v, mode, i, named_lifetime=named)
        modules.append((i, text))
        exps[i] = exp
    events, errors, st = engine_b.build_and_run(ctx, "returns", modules, per_crate=60)
    checked = 0
    feats = {}
    for i, (t, v, mode, named) in enumerate(cases):
        key = json.dumps([t, v, mode, named])
        if i in errors:
            ctx.violation(f"retgen:expansion-error:{json.dumps(t)}", {
                "what": "a return type of the calibrated accepted set no longer compiles", "at": f"case {i}",
                "case": exps[i]["type"], "expected": "compiles", "observed": "; ".join(errors[i])[:800]})
            continue
        why = retgen.check(exps[i], events.get(i, []))
        checked += 1
        if why:
            ctx.violation(f"retgen:{key}", {"what": why, "at": f"case {i}",
                                            "case": f"fn m(&self) -> {exps[i]['type']} configured {mode} with {exps[i]['value']}",
                                            "expected": json.dumps(exps[i]), "observed": json.dumps(events.get(i, []))[:800]})
        for f in [f"mode_{mode}", f"top_{t[0]}", "with_ref" if retgen.has_ref(t) else "owned_only",
                  "named_self_lifetime" if named else "elided_lifetime",
                  "owned_leaf_in_value" if exps[i]["owned_leaves"] else "borrowed_only_value"]:
            feats[f] = feats.get(f, 0) + 1
    # the same programs against the no_std build *with* a lock (spin-lock): the configuration must not change what
    # a composite return reproduces, nor which requests are refused
    n_spin = len(cases) if ctx.tier == "thorough" else min(len(cases), 2 * len(ownable) + 40)
    spin_modules = [(i, text) for i, text in modules if i < n_spin]
    s_events, s_errors, s_st = engine_b.build_and_run(
        ctx, "returns_spin", spin_modules, features=("critical-section", "spin-lock"),
        extra_deps='critical-section = { version = "1.1.2", features = ["std"] }', per_crate=60)
    spin_checked = 0
    for i, (t, v, mode, named) in enumerate(cases[:n_spin]):
        if i in errors:
            continue
        if i in s_errors:
            ctx.violation(f"retgen:spin:expansion-error:{json.dumps(t)}", {
                "what": "a return type of the calibrated accepted set no longer compiles in the no_std + spin-lock build",
                "at": f"case {i}", "case": exps[i]["type"], "expected": "compiles",
                "observed": "; ".join(s_errors[i])[:800]})
            continue
        why = retgen.check(exps[i], s_events.get(i, []))
        spin_checked += 1
        if why:
            ctx.violation(f"retgen:spin:{json.dumps([t, v, mode, named])}", {
                "what": "no_std + spin-lock build: " + why, "at": f"case {i}",
                "case": f"fn m(&self) -> {exps[i]['type']} configured {mode} with {exps[i]['value']} (no_std, spin-lock)",
                "expected": json.dumps(exps[i]), "observed": json.dumps(s_events.get(i, []))[:800]})
    ctx.require(spin_checked > 0, "no return case checked in the no_std + spin-lock build")
    ctx.coverage["spin_lock_stage"] = {"programs": spin_checked, "compile_errors": len(s_errors),
                                       "build_and_run_s": s_st.get("build_and_run_s")}
    for f in ["mode_some", "mode_each", "mode_once", "mode_n2", "mode_al1", "top_opt", "top_res", "top_vec", "top_poll", "top_tup",
              "with_ref", "owned_only", "owned_leaf_in_value", "borrowed_only_value", "named_self_lifetime"]:
        ctx.require(feats.get(f, 0) > 0, f"no return case with {f}")
    ctx.coverage.update({
        "evaluations": checked,
        "distinct_nontrivial": len({json.dumps(c) for c in cases}),
        "rule": "a case = (return type from the calibrated accepted set over Option/Result/Vec/Poll/1-4-tuples x owned "
                "u32/String, &u32, &str, &[u8], &'static str, depth <= 3; a value: every variant, 0-4 elements, all "
                "leaves distinct; a configuration path: some_call / each_call / next_call.once() / n_times(2)). The Debug "
                "rendering of every returned value must equal the generator's rendering of the configured value, borrowed "
                "leaves must keep their addresses over repeated calls, and a further request is refused exactly when "
                "the value has an owned leaf and the path is single-use. All cases are non-trivial; distinct by (type, "
                "value, mode).",
        "samples": [f"{exps[i]['type']} = {exps[i]['value']} via {exps[i]['mode']}" for i in list(exps)[:4]],
        "accepted_types": len(accepted), "accepted_types_with_references": len(with_ref),
        "features": feats, "compile_errors": len(errors), **st, "exhaustive": False,
    })
    ctx.assumptions += ["accepted return types were calibrated once on the pinned tree (gen/accepted/returns.json, "
                        "rejected candidates with rustc's reason in returns_rejected.json)"]


def dynmock_stage(ctx, cases, gate=True):
    """Engine A histories (fall-through table with default bodies and real functions), judged by Spec-M;
    discrepancies tagged with this property are reported."""
    from . import engine_a
    workers, viols, summary, _ = engine_a._run_config(ctx, "std", cases)
    stats = engine_a._merge(w["stats"] for w in workers)
    for v in viols:
        ctx.violation(f"dynmock:std:{'+'.join(v['tags'])}:{v['at'].split(' ')[0]}", dict(v))
    if gate:
        ctx.require(stats.get("out_real", 0) > 0 and stats.get("out_default_body", 0) > 0,
                    "dynmock stage saw no real-function / default-body outcome")
    else:
        for k in ["Explicit", "CannotReturnTwice", "WrongOrder", "InputsNotMatched", "NoOutput", "NoMatcherFn"]:
            ctx.require(stats.get("mockpanic_" + k, 0) > 0, f"dynmock stage saw no {k} message")
    ctx.coverage["dynmock_stage"] = {"cases": sum(w["cases"] for w in workers),
                                     "distinct_nontrivial": summary["distinct_nontrivial"],
                                     "out_real": stats.get("out_real", 0),
                                     "out_default_body": stats.get("out_default_body", 0)}
    ctx.coverage["evaluations"] += sum(w["cases"] for w in workers)
    ctx.coverage["distinct_nontrivial"] += summary["distinct_nontrivial"]
    if ctx.prop == "C19":
        # messages are also produced by a debug build (overflow checks on while they are formatted)
        workers, viols, summary, _ = engine_a._run_config(ctx, "std", 30_000 if ctx.tier == "quick" else 600_000,
                                                          profile="dev")
        for v in viols:
            ctx.violation(f"dynmock:std-debug:{'+'.join(v['tags'])}:{v['at'].split(' ')[0]}", dict(v, config="std (debug build)"))
        ctx.coverage["dynmock_stage"]["debug_build_cases"] = sum(w["cases"] for w in workers)
        ctx.coverage["evaluations"] += sum(w["cases"] for w in workers)


def run(ctx):
    if ctx.prop == "C15":
        run_c15(ctx)
        dynmock_stage(ctx, 200_000 if ctx.tier == "quick" else 4_000_000)
        # provided methods of a user trait that format `self` through Display / Debug supertraits (mock-core)
        from . import engine_c20, engine_c
        engine_c20.family_stage(ctx, "supertrait", 2000 if ctx.tier == "quick" else 100_000)
        # first delegated calls racing on one shared instance (creation of the internal delegation helper)
        race, v = engine_c.run_sched(ctx, "c15-helper-race", 4000 if ctx.tier == "quick" else 200_000)
        engine_c.report(ctx, v, "C15", "helper creation race")
        ctx.require(race["stats"].get("delegated_calls", 0) > 0, "the helper-race stage made no calls")
        ctx.coverage["helper_race_stage"] = {"rounds": race["executions"],
                                             "delegated_calls": race["stats"].get("delegated_calls", 0)}
        ctx.coverage["evaluations"] += race["executions"]
        return
    if ctx.prop == "C16":
        run_c16(ctx)
        return dynmock_stage(ctx, 200_000 if ctx.tier == "quick" else 4_000_000)
    if ctx.prop == "C06":
        return run_c06(ctx)
    if ctx.prop == "C19":
        return run_c19(ctx)
    if ctx.prop == "C17":
        return run_c17(ctx)
    raise common.Inconclusive(f"no shapegen workload for {ctx.prop}")
