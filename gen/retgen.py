"""Engine B, C17: composite return types (Option / Result / Vec / Poll / tuples over owned and borrowed leaves).

For every accepted return type and every value shape (each variant, 0-4 elements) the mocked method must hand back a
value structurally equal to the one passed to `returns()`: the Debug rendering of the result (references print like
their referents) must equal the generator's rendering of the configured value; borrowed leaves must have stable
addresses over repeated calls; owned leaves are single-use exactly on the single-use configuration paths.
"""
import json
import random

LEAVES = ["u32", "string", "ref_u32", "ref_str", "ref_bytes", "static_str"]
# `&'static str` is a by-value leaf: it is not borrowed from the mock
OWNED = {"u32", "string", "static_str"}


def ty_rust(t, lt=""):
    """`lt` = "'s " renders every reference borrowed from self with the named receiver lifetime."""
    if lt:
        return (ty_rust(t).replace("&u32", f"&{lt}u32").replace("&str", f"&{lt}str").replace("&[u8]", f"&{lt}[u8]")
                .replace("&Unit", f"&{lt}Unit"))
    k = t[0]
    if k == "u32":
        return "u32"
    if k == "string":
        return "String"
    if k == "ref_u32":
        return "&u32"
    if k == "ref_str":
        return "&str"
    if k == "ref_bytes":
        return "&[u8]"
    if k == "ref_unit":
        return "&Unit"
    if k == "static_str":
        return "&'static str"
    if k == "opt":
        return f"Option<{ty_rust(t[1])}>"
    if k == "res":
        return f"Result<{ty_rust(t[1])}, {ty_rust(t[2])}>"
    if k == "vec":
        return f"Vec<{ty_rust(t[1])}>"
    if k == "poll":
        return f"std::task::Poll<{ty_rust(t[1])}>"
    if k == "tup":
        inner = ", ".join(ty_rust(x) for x in t[1:])
        return f"({inner},)" if len(t) == 2 else f"({inner})"
    raise ValueError(t)


def ty_cfg(t):
    """The owned type a value is configured with."""
    k = t[0]
    if k in ("u32", "ref_u32"):
        return "u32"
    if k in ("string", "ref_str"):
        return "String"
    if k == "ref_bytes":
        return "Vec<u8>"
    if k == "ref_unit":
        return "Unit"
    if k == "static_str":
        return "&'static str"
    if k == "opt":
        return f"Option<{ty_cfg(t[1])}>"
    if k == "res":
        return f"Result<{ty_cfg(t[1])}, {ty_cfg(t[2])}>"
    if k == "vec":
        return f"Vec<{ty_cfg(t[1])}>"
    if k == "poll":
        return f"std::task::Poll<{ty_cfg(t[1])}>"
    if k == "tup":
        inner = ", ".join(ty_cfg(x) for x in t[1:])
        return f"({inner},)" if len(t) == 2 else f"({inner})"
    raise ValueError(t)


def has_ref(t):
    if t[0] in ("ref_u32", "ref_str", "ref_bytes", "ref_unit"):
        return True
    if t[0] in LEAVES:
        return False
    return any(has_ref(x) for x in t[1:])


class Counter:
    def __init__(self):
        self.n = 0

    def next(self):
        self.n += 1
        return self.n


def can_own(t):
    """Does the type have a borrow-free part (an owned leaf can occur in some value)"""
    if not has_ref(t):
        return True
    if t[0] in LEAVES or t[0] == "ref_unit":
        return False
    return any(can_own(x) for x in t[1:])


def gen_value(t, rng, c: Counter, force=None):
    """Python value tree: leaf -> int/str/list; opt -> None | ("Some", v); res -> ("Ok", v)|("Err", v); ..."""
    k = t[0]
    if k in ("u32", "ref_u32"):
        return 1000 + c.next()
    if k in ("string", "ref_str", "static_str"):
        if force == "blank":
            return ""      # an empty string is a value like any other (its borrowed view has size 0)
        return f"s{c.next()}"
    if k == "ref_bytes":
        if force == "blank":
            return []
        n = c.next()
        return [n % 250, (n + 1) % 250]
    if k == "ref_unit":
        return "Unit"
    if k == "opt":
        if force in ("first", "owned", "empty", "blank") or (force is None and rng.random() < 0.7):
            return ("Some", gen_value(t[1], rng, c, force if force in ("owned", "empty", "blank") else None))
        return None
    if k == "res":
        if force == "owned":
            # steer towards the variant that can hold an owned leaf
            if can_own(t[1]) and not (can_own(t[2]) and rng.random() < 0.5):
                return ("Ok", gen_value(t[1], rng, c, force))
            return ("Err", gen_value(t[2], rng, c, force))
        if force == "empty":
            has_vec = lambda x: x[0] == "vec" or any(has_vec(y) for y in x[1:] if isinstance(y, (list, tuple)))
            if has_vec(t[1]) or not has_vec(t[2]):
                return ("Ok", gen_value(t[1], rng, c, force))
            return ("Err", gen_value(t[2], rng, c, force))
        if (force == "first") or (force is None and rng.random() < 0.5):
            return ("Ok", gen_value(t[1], rng, c))
        return ("Err", gen_value(t[2], rng, c))
    if k == "vec":
        # force == "empty": every vector in the value is empty (an empty vector is a value like any other)
        n = rng.choice([0, 1, 2, 3, 4]) if force is None else (2 if force in ("first", "owned") else 0)
        return ["vec"] + [gen_value(t[1], rng, c, force if force == "owned" else None) for _ in range(n)]
    if k == "poll":
        if force in ("first", "owned", "empty", "blank") or (force is None and rng.random() < 0.7):
            return ("Ready", gen_value(t[1], rng, c, force if force in ("owned", "empty", "blank") else None))
        return ("Pending",)
    if k == "tup":
        return ("tup",) + tuple(gen_value(x, rng, c, force if force in ("owned", "empty", "blank") else None) for x in t[1:])
    raise ValueError(t)


def val_cfg(t, v):
    """Rust expression constructing the configuration value."""
    k = t[0]
    if k in ("u32", "ref_u32"):
        return f"{v}u32"
    if k in ("string", "ref_str"):
        return f"String::from({json.dumps(v)})"
    if k == "static_str":
        return json.dumps(v)
    if k == "ref_bytes":
        return "vec![" + ", ".join(f"{x}u8" for x in v) + "]"
    if k == "ref_unit":
        return "Unit"
    if k == "opt":
        return f"None::<{ty_cfg(t[1])}>" if v is None else f"Some::<{ty_cfg(t[1])}>({val_cfg(t[1], v[1])})"
    if k == "res":
        a, b = ty_cfg(t[1]), ty_cfg(t[2])
        return f"Ok::<{a}, {b}>({val_cfg(t[1], v[1])})" if v[0] == "Ok" else f"Err::<{a}, {b}>({val_cfg(t[2], v[1])})"
    if k == "vec":
        return f"Vec::<{ty_cfg(t[1])}>::from_iter([" + ", ".join(val_cfg(t[1], x) for x in v[1:]) + "])"
    if k == "poll":
        a = ty_cfg(t[1])
        return f"std::task::Poll::<{a}>::Pending" if v[0] == "Pending" else f"std::task::Poll::<{a}>::Ready({val_cfg(t[1], v[1])})"
    if k == "tup":
        inner = ", ".join(val_cfg(x, y) for x, y in zip(t[1:], v[1:]))
        return f"({inner},)" if len(t) == 2 else f"({inner})"
    raise ValueError(t)


def val_debug(t, v):
    k = t[0]
    if k in ("u32", "ref_u32"):
        return str(v)
    if k in ("string", "ref_str", "static_str"):
        return json.dumps(v)
    if k == "ref_bytes":
        return "[" + ", ".join(str(x) for x in v) + "]"
    if k == "ref_unit":
        return "Unit"
    if k == "opt":
        return "None" if v is None else f"Some({val_debug(t[1], v[1])})"
    if k == "res":
        return f"Ok({val_debug(t[1], v[1])})" if v[0] == "Ok" else f"Err({val_debug(t[2], v[1])})"
    if k == "vec":
        return "[" + ", ".join(val_debug(t[1], x) for x in v[1:]) + "]"
    if k == "poll":
        return "Pending" if v[0] == "Pending" else f"Ready({val_debug(t[1], v[1])})"
    if k == "tup":
        inner = ", ".join(val_debug(x, y) for x, y in zip(t[1:], v[1:]))
        return f"({inner},)" if len(t) == 2 else f"({inner})"
    raise ValueError(t)


def owned_leaves(t, v):
    """Number of owned leaves present in this value. An owned leaf is a maximal sub-value whose type contains no
    borrow from self: it is stored (and handed out) as one owned value, whatever variant it holds."""
    k = t[0]
    if not has_ref(t):
        return 1
    if k in OWNED:
        return 1
    if k in LEAVES or k == "ref_unit":
        return 0
    if k == "opt":
        return 0 if v is None else owned_leaves(t[1], v[1])
    if k == "res":
        return owned_leaves(t[1], v[1]) if v[0] == "Ok" else owned_leaves(t[2], v[1])
    if k == "vec":
        return sum(owned_leaves(t[1], x) for x in v[1:])
    if k == "poll":
        return 0 if v[0] == "Pending" else owned_leaves(t[1], v[1])
    if k == "tup":
        return sum(owned_leaves(x, y) for x, y in zip(t[1:], v[1:]))
    raise ValueError(t)


def addr_code(t, expr, depth=0):
    """Rust statements pushing the addresses of the borrowed leaves of `expr` (of type &T) into `out`."""
    k = t[0]
    if k in ("ref_u32", "ref_str", "ref_bytes", "ref_unit"):
        return f"out.push(addr(*{expr}));"
    if k in LEAVES:
        return ""
    x = f"x{depth}"
    if k == "opt":
        inner = addr_code(t[1], x, depth + 1)
        return f"if let Some({x}) = {expr} {{ {inner} }}" if inner else ""
    if k == "res":
        a, b = addr_code(t[1], x, depth + 1), addr_code(t[2], x, depth + 1)
        if not a and not b:
            return ""
        return f"match {expr} {{ Ok({x}) => {{ {a} }} Err({x}) => {{ {b} }} }}"
    if k == "vec":
        inner = addr_code(t[1], x, depth + 1)
        return f"for {x} in {expr}.iter() {{ {inner} }}" if inner else ""
    if k == "poll":
        inner = addr_code(t[1], x, depth + 1)
        return f"if let std::task::Poll::Ready({x}) = {expr} {{ {inner} }}" if inner else ""
    if k == "tup":
        parts = []
        for i, sub in enumerate(t[1:]):
            c = addr_code(sub, f"(&{expr}.{i})", depth + 1)
            if c:
                parts.append(c)
        return " ".join(parts)
    raise ValueError(t)


def candidate_types(rng: random.Random, n, max_depth=3):
    out, seen = [], set()

    def gen(depth):
        if depth >= max_depth or rng.random() < 0.35:
            return (rng.choice(LEAVES),)
        k = rng.choice(["opt", "res", "vec", "poll", "tup", "tup"])
        if k == "res":
            return ("res", gen(depth + 1), gen(depth + 1))
        if k == "tup":
            return ("tup",) + tuple(gen(depth + 1) for _ in range(rng.choice([1, 2, 2, 3, 4])))
        return (k, gen(depth + 1))
    tries = 0
    while len(out) < n and tries < n * 100:
        tries += 1
        t = gen(0)
        if t[0] in LEAVES:
            continue
        key = json.dumps(t)
        if key in seen:
            continue
        seen.add(key)
        out.append(t)
    return out


# hand-picked types with a zero-sized leaf (not part of the calibrated list; they compile with the pinned macro)
ZST_TYPES = [("vec", ("ref_unit",)), ("opt", ("ref_unit",)), ("tup", ("ref_unit",), ("u32",)), ("ref_unit",)]


def systematic_types():
    """Depth 1 and 2 combinations of every container with every leaf."""
    L = [(l,) for l in LEAVES]
    out = []
    unary = ["opt", "vec", "poll"]
    for c in unary:
        for l in L:
            out.append((c, l))
    for l1 in L:
        for l2 in L:
            out.append(("res", l1, l2))
    for l1 in L:
        out.append(("tup", l1))
        for l2 in L:
            out.append(("tup", l1, l2))
    out.append(("tup", ("ref_u32",), ("u32",), ("ref_str",), ("string",)))
    out.append(("tup", ("ref_str",), ("string",), ("ref_u32",)))
    for c1 in unary:
        for c2 in unary:
            for l in L:
                out.append((c1, (c2, l)))
    for c in unary:
        for l1 in L:
            for l2 in (("u32",), ("string",), ("ref_str",)):
                out.append((c, ("res", l1, l2)))
                out.append(("res", (c, l1), l2))
                out.append(("tup", (c, l1), l2))
    return out


def to_tuple(t):
    return tuple(to_tuple(x) if isinstance(x, list) else x for x in t)


MODES = ["some", "each", "once", "n2", "al1"]


def render(t, v, mode, idx, named_lifetime=False):
    rt = ty_rust(t)
    if named_lifetime:
        return render_named(t, v, mode, idx)
    cfg = val_cfg(t, v)
    ac = addr_code(t, "v")
    clause = {
        "some": f"M::m.some_call(matching!()).returns({cfg})",
        "each": f"M::m.each_call(matching!()).returns({cfg})",
        "once": f"M::m.next_call(matching!()).returns({cfg}).once()",
        "n2": f"M::m.some_call(matching!()).returns({cfg}).n_times(2)",
        # a lower bound leaves the number of calls open: a multi-use path
        "al1": f"M::m.some_call(matching!()).returns({cfg}).at_least_times(1)",
    }[mode]
    n_calls = {"some": 2, "each": 3, "once": 1, "n2": 2, "al1": 3}[mode]
    text = f"""// return case {idx}: {json.dumps(t)} value {json.dumps(v)} mode {mode}
use super::support::*;
use unimock::*;

#[unimock(api=M)]
pub trait Tr {{
    fn m(&self) -> {rt};
}}

fn addrs(v: &{rt}, out: &mut Vec<usize>) {{
    {ac}
}}

pub fn run() {{
    let u = Unimock::new({clause}).no_verify_in_drop();
    for call in 0..{n_calls} {{
        let r = std::panic::catch_unwind(std::panic::AssertUnwindSafe(|| {{
            let v = u.m();
            let mut a = vec![];
            addrs(&v, &mut a);
            (format!("{{:?}}", v), a)
        }}));
        match r {{
            Ok((dbg, a)) => ev({idx}, "value", &[dbg], &a),
            Err(p) => ev({idx}, "panic", &[panic_text(p)], &[]),
        }}
    }}
}}
"""
    single_use_path = mode in ("some", "once")
    n_owned = owned_leaves(t, v) if has_ref(t) else 1
    exp = {"idx": idx, "type": rt, "value": val_debug(t, v), "mode": mode, "calls": n_calls,
           "owned_leaves": n_owned, "single_use_path": single_use_path}
    return text, exp


def render_nolock(t, v, mode, idx):
    """C14, no_std build without a lock: is the configured return producible? Construction is wrapped, so that a
    refusal at construction time ("No Mutex API") is told apart from a failure at call time."""
    text, exp = render(t, v, mode, idx)
    old = text[text.index("pub fn run() {"):]
    rt = ty_rust(t)
    clause = old[old.index("Unimock::new(") + len("Unimock::new("):old.index(").no_verify_in_drop();")]
    new = f"""pub fn run() {{
    let built = std::panic::catch_unwind(|| Unimock::new({clause}).no_verify_in_drop());
    let u = match built {{
        Ok(u) => u,
        Err(p) => {{
            ev({idx}, "build_panic", &[panic_text(p)], &[]);
            return;
        }}
    }};
    ev({idx}, "built", &[], &[]);
    let r = std::panic::catch_unwind(std::panic::AssertUnwindSafe(|| {{
        let v = u.m();
        format!("{{:?}}", v)
    }}));
    match r {{
        Ok(dbg) => ev({idx}, "value", &[dbg], &[]),
        Err(p) => ev({idx}, "panic", &[panic_text(p)], &[]),
    }}
}}
"""
    exp = dict(exp)
    exp["nolock"] = True
    return text.replace(old, new), exp


def check_nolock(exp, events):
    """Single-use paths only. A value with an owned part needs the Mutex API to be handed out once: construction
    must fail. A value made of borrowed leaves only must be accepted and returned by the first call."""
    ks = [e["k"] for e in events]
    if "driver_panic" in ks:
        return f"driver panicked: {events[ks.index('driver_panic')]['p']}"
    if exp["owned_leaves"] > 0:
        if "build_panic" not in ks:
            return (f"a return with an owned part ({exp['type']} = {exp['value']}) cannot be produced without a Mutex API, "
                    f"but Unimock::new accepted it (events {ks}: " +
                    "; ".join(str(e['p'])[:160] for e in events if e['k'] in ('value', 'panic')) + ")")
        msg = events[ks.index("build_panic")]["p"][0]
        if "Mutex" not in msg:
            return f"construction failed with an unexpected message: {msg[:200]!r}"
        return None
    if "build_panic" in ks:
        return (f"a return made of borrowed leaves only ({exp['type']} = {exp['value']}) was refused at construction: "
                f"{events[ks.index('build_panic')]['p'][0][:200]!r}")
    vals = [e for e in events if e["k"] == "value"]
    if not vals:
        return f"the first call did not return the configured value: {[e['p'] for e in events if e['k'] == 'panic']}"
    if vals[0]["p"][0] != exp["value"]:
        return f"first call returned {vals[0]['p'][0]}, configured {exp['value']}"
    return None


def render_named(t, v, mode, idx):
    """The same case with `fn m<'s>(&'s self) -> ..&'s T..`: borrows tied to self only through a named lifetime."""
    text, exp = render(t, v, mode, idx)
    rt = ty_rust(t)
    rt_named = ty_rust(t, "'s ")
    text = text.replace(f"    fn m(&self) -> {rt};", f"    fn m<'s>(&'s self) -> {rt_named};")
    exp = dict(exp)
    exp["type"] = rt_named
    exp["named_lifetime"] = True
    return text, exp


def check(exp, events):
    if any(e["k"] == "driver_panic" for e in events):
        return f"driver panicked: {[e['p'] for e in events if e['k'] == 'driver_panic']}"
    if len(events) != exp["calls"]:
        return f"{len(events)} results for {exp['calls']} calls"
    first = events[0]
    if first["k"] != "value":
        return f"first call panicked: {first['p'][0][:200]!r}"
    if first["p"][0] != exp["value"]:
        return f"returned {first['p'][0]}, configured {exp['value']}"
    for n, e in enumerate(events[1:], start=2):
        must_refuse = exp["single_use_path"] and exp["owned_leaves"] > 0
        if must_refuse:
            if e["k"] != "panic" or "more than once" not in e["p"][0]:
                return (f"call {n}: the value has an owned leaf configured through a single-use path, but the "
                        f"request was not refused: {e['p'][0][:160]!r}")
        else:
            if e["k"] != "value":
                return (f"call {n}: a repeatable value (borrowed leaves / multi-use path) was refused: "
                        f"{e['p'][0][:200]!r}")
            if e["p"][0] != exp["value"]:
                return f"call {n} returned {e['p'][0]}, configured {exp['value']}"
            if e["a"] != first["a"]:
                return f"call {n}: borrowed leaves moved ({e['a']} vs {first['a']})"
    return None
