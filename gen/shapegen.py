"""Engine B: generated programs with generator-side expectations.

A *shape* is a trait declaration (receiver x parameters x return x async form x api form x generics) together with
a driver that calls the mocked method with pairwise distinct argument values. The driver logs what the caller, the
input matcher and the answer function see; the expectation is computed here from the shape alone (never from
unimock) and compared with the log by `check_*`.

Modes: "forward" (C05), "message" (C19), "default" (C15), "unmock" (C16).
"""
import json
import os
import random
import subprocess
from dataclasses import dataclass, field
from typing import List, Optional

# ------------------------------------------------------------------------------------------------
# parameter kinds


@dataclass
class Kind:
    name: str
    sig: str                 # type in the trait signature ({L} = optional lifetime name incl. trailing space)
    decl: str                # statement declaring the caller's variable `p{i}` from value v
    arg: str                 # expression passed at the call
    canon_m: Optional[str]   # expression of type &Base from matcher binding m{i} (a reference to the tuple element)
    canon_a: Optional[str]   # expression of type &Base from the answer parameter a{i}
    canon_c: str             # expression of type &Base at the call site (from p{i})
    base: str                # u32 | str | bytes | nodbg | string | vecu8 | opt | u16 | tup | arr
    is_ref: bool = False     # address is comparable between caller, matcher and answer
    mutable: bool = False
    mutate: Optional[str] = None   # statement mutating through a{i}
    debug: bool = True       # implements Debug
    generic: Optional[str] = None  # "method" | "impl" | "trait"
    elem_ty: Optional[str] = None  # type of the element in Inputs (for closure annotations), None = same as sig
    impossible: bool = False


def K(**kw):
    return Kind(**kw)


KINDS = {
    "u32": K(name="u32", sig="u32", decl="let p{i}: u32 = {v};", arg="p{i}", canon_m="m{i}", canon_a="&a{i}",
             canon_c="&p{i}", base="u32"),
    "string": K(name="string", sig="String", decl='let p{i}: String = format!("s{v}");', arg="p{i}.clone()",
                canon_m="m{i}.as_str()", canon_a="a{i}.as_str()", canon_c="p{i}.as_str()", base="str"),
    "nodbg": K(name="nodbg", sig="NoDbg", decl="let p{i} = NoDbg({v});", arg="NoDbg(p{i}.0)", canon_m="m{i}",
               canon_a="&a{i}", canon_c="&p{i}", base="nodbg", debug=False),
    "ref_u32": K(name="ref_u32", sig="&{L}u32", decl="let p{i}: u32 = {v};", arg="&p{i}", canon_m="*m{i}",
                 canon_a="a{i}", canon_c="&p{i}", base="u32", is_ref=True),
    "refref_u32": K(name="refref_u32", sig="&&u32", decl="let p{i}: u32 = {v}; let q{i}: &u32 = &p{i};",
                    arg="&q{i}", canon_m="**m{i}", canon_a="*a{i}", canon_c="&p{i}", base="u32", is_ref=True),
    "ref_str": K(name="ref_str", sig="&str", decl='let p{i}: String = format!("r{v}");', arg="p{i}.as_str()",
                 canon_m="*m{i}", canon_a="a{i}", canon_c="p{i}.as_str()", base="str", is_ref=True),
    "ref_bytes": K(name="ref_bytes", sig="&[u8]", decl="let p{i}: Vec<u8> = vec![{v} as u8, 1, 2];",
                   arg="p{i}.as_slice()", canon_m="*m{i}", canon_a="a{i}", canon_c="p{i}.as_slice()",
                   base="bytes", is_ref=True),
    "ref_nodbg": K(name="ref_nodbg", sig="&NoDbg", decl="let p{i} = NoDbg({v});", arg="&p{i}", canon_m="*m{i}",
                   canon_a="a{i}", canon_c="&p{i}", base="nodbg", is_ref=True, debug=False),
    "mut_u32": K(name="mut_u32", sig="&mut u32", decl="let mut p{i}: u32 = {v};", arg="&mut p{i}",
                 canon_m="&**m{i}", canon_a="&*a{i}", canon_c="&p{i}", base="u32", is_ref=True, mutable=True,
                 mutate="*a{i} += 1000;"),
    # the same with an explicitly named lifetime on the reference (still a plain `&mut u32` for the matcher)
    "mut_u32_lt": K(name="mut_u32_lt", sig="&'b mut u32", decl="let mut p{i}: u32 = {v};", arg="&mut p{i}",
                    canon_m="&**m{i}", canon_a="&*a{i}", canon_c="&p{i}", base="u32", is_ref=True, mutable=True,
                    mutate="*a{i} += 1000;", elem_ty="&mut u32"),
    "mut_vec": K(name="mut_vec", sig="&mut Vec<u8>", decl="let mut p{i}: Vec<u8> = vec![{v} as u8];",
                 arg="&mut p{i}", canon_m="m{i}.as_slice()", canon_a="a{i}.as_slice()", canon_c="p{i}.as_slice()",
                 base="bytes", is_ref=False, mutable=True, mutate="a{i}.push(99);"),
    # a mutable reference to a type with a lifetime: unimock cannot represent it in Inputs ("Impossible")
    "mut_wr": K(name="mut_wr", sig="&mut Wr<'_>", decl="let mut w{i}: u32 = {v}; let mut p{i} = Wr(&mut w{i});",
                arg="&mut p{i}", canon_m=None, canon_a="&*a{i}.0", canon_c="&*p{i}.0", base="u32", mutable=True,
                mutate="*a{i}.0 += 1000;", impossible=True, debug=False),
    "opt_ref": K(name="opt_ref", sig="Option<&u32>", decl="let p{i}: u32 = {v};", arg="Some(&p{i})",
                 canon_m="m{i}.unwrap()", canon_a="a{i}.unwrap()", canon_c="&p{i}", base="u32", is_ref=True),
    "tuple": K(name="tuple", sig="(u8, String)", decl='let p{i}: (u8, String) = ({v} as u8, format!("t{v}"));',
               arg="p{i}.clone()", canon_m="m{i}", canon_a="&a{i}", canon_c="&p{i}", base="tup"),
    "array": K(name="array", sig="[u8; 2]", decl="let p{i}: [u8; 2] = [{v} as u8, 3];", arg="p{i}",
               canon_m="m{i}", canon_a="&a{i}", canon_c="&p{i}", base="arr"),
    "boxed": K(name="boxed", sig="Box<u32>", decl="let p{i}: Box<u32> = Box::new({v});", arg="p{i}.clone()",
               canon_m="&**m{i}", canon_a="&*a{i}", canon_c="&*p{i}", base="u32"),
    # generics, instantiated at u16
    "gen_method": K(name="gen_method", sig="T{i}", decl="let p{i}: u16 = {v};", arg="p{i}", canon_m="m{i}",
                    canon_a="&a{i}", canon_c="&p{i}", base="u16", generic="method", elem_ty="u16"),
    # a method-level generic WITHOUT Send/Sync bounds (the expansion must not demand more than the trait declares)
    "gen_method_ns": K(name="gen_method_ns", sig="T{i}", decl="let p{i}: u16 = {v};", arg="p{i}", canon_m="m{i}",
                       canon_a="&a{i}", canon_c="&p{i}", base="u16", generic="method", elem_ty="u16"),
    "gen_impl": K(name="gen_impl", sig="impl std::fmt::Debug + Clone + Send + Sync + 'static",
                  decl="let p{i}: u16 = {v};", arg="p{i}", canon_m="m{i}", canon_a="&a{i}", canon_c="&p{i}",
                  base="u16", generic="impl", elem_ty="u16"),
    # an `impl Trait` parameter whose bounds include `Future` (the macro treats future bounds specially in return
    # position; in argument position it is one more synthetic generic, numbered like the others)
    "gen_impl_fut": K(name="gen_impl_fut",
                      sig="impl std::future::Future<Output = ()> + std::fmt::Debug + Clone + Send + Sync + 'static",
                      decl="let p{i}: FutU16 = FutU16({v});", arg="p{i}.clone()", canon_m="&m{i}.0",
                      canon_a="&a{i}.0", canon_c="&p{i}.0", base="u16", generic="impl", elem_ty="FutU16"),
    # the trait-level generic is instantiated at another type (i16) than the method-level ones (u16): the two groups
    # of type arguments must not get mixed up
    "gen_trait": K(name="gen_trait", sig="G", decl="let p{i}: i16 = {v};", arg="p{i}", canon_m="m{i}",
                   canon_a="&a{i}", canon_c="&p{i}", base="i16", generic="trait", elem_ty="i16"),
}

PROBE_FN = {"u32": "pr_u32", "str": "pr_str", "bytes": "pr_bytes", "nodbg": "pr_nodbg", "u16": "pr_u16", "i16": "pr_i16",
            "tup": "pr_tup", "arr": "pr_arr"}


def value_of(i):
    return 100 + 7 * i


def py_probe(kind: Kind, i, mutated=False):
    v = value_of(i)
    if kind.base in ("u32", "u16", "i16"):
        return str(v + 1000) if (mutated and kind.mutable) else str(v)
    if kind.base == "str":
        return ("s" if kind.name == "string" else "r") + str(v)
    if kind.base == "bytes":
        if kind.name == "mut_vec":
            return str([v % 256] + ([99] if mutated else [])).replace(" ", "")
        return str([v % 256, 1, 2]).replace(" ", "")
    if kind.base == "nodbg":
        return str(v)
    if kind.base == "tup":
        return f"{v % 256}:t{v}"
    if kind.base == "arr":
        return f"[{v % 256},3]"
    raise ValueError(kind.base)


def py_debug(kind: Kind, i):
    """Rust `{:?}` rendering of the argument as rustc's own Debug gives it (None = no Debug impl)."""
    if not kind.debug:
        return None
    v = value_of(i)
    if kind.base in ("u32", "u16", "i16"):
        if kind.name == "opt_ref":
            return f"Some({v})"
        return str(v)
    if kind.base == "str":
        return '"' + ("s" if kind.name == "string" else "r") + str(v) + '"'
    if kind.base == "bytes":
        if kind.name == "mut_vec":
            return f"[{v % 256}]"
        return f"[{v % 256}, 1, 2]"
    if kind.base == "tup":
        return f'({v % 256}, "t{v}")'
    if kind.base == "arr":
        return f"[{v % 256}, 3]"
    raise ValueError(kind.base)


# ------------------------------------------------------------------------------------------------
# shapes

RECEIVERS = ["ref", "mut", "owned", "box", "rc", "arc", "pin"]
RETURNS = ["unit", "u32", "string", "self_ref", "self_str", "self_mut", "static_str", "param_ref", "opt_self_ref"]
ASYNCS = ["sync", "async_fn", "async_trait", "rpit"]
APIS = ["module", "flat"]


@dataclass
class Shape:
    receiver: str
    params: List[str]
    ret: str
    asyncness: str = "sync"
    api: str = "module"
    named_self_lifetime: bool = False
    # C15 / C16 extras
    extra: dict = field(default_factory=dict)

    def key(self):
        return json.dumps([self.receiver, self.params, self.ret, self.asyncness, self.api,
                           self.named_self_lifetime, self.extra], sort_keys=True)


def supported(s: Shape) -> Optional[str]:
    """None if the shape is in the calibrated grammar, else the reason it is not generated."""
    kinds = [KINDS[p] for p in s.params]
    by_value = s.receiver in ("owned", "box", "rc", "arc")
    if s.ret in ("self_ref", "self_str", "opt_self_ref") and by_value:
        return "cannot borrow from a by-value receiver"
    if s.ret == "self_mut" and s.receiver not in ("mut", "pin"):
        return "&mut return needs &mut self"
    if s.ret == "param_ref" and "ref_u32" not in s.params:
        return "no parameter to borrow from"
    if s.ret == "param_ref" and sum(1 for k in kinds if "&" in k.sig) != 1:
        return ("calibration: a return borrowed from one parameter while other parameters are references too is not "
                "accepted by the pinned macro (generated impl fails borrow check)")
    if s.ret == "param_ref" and s.receiver in ("mut", "pin"):
        return "calibration: parameter-borrowed return on a &mut self method fails borrow check in the pinned macro's impl"
    if s.ret == "param_ref" and s.asyncness != "sync":
        return "kept simple: borrowed-from-parameter returns only for sync methods"
    if s.asyncness != "sync":
        if any(k.generic == "impl" for k in kinds):
            return "impl Trait parameters in async methods not generated"
        if s.receiver in ("rc",):
            return "Rc receiver is not Send"
        if s.asyncness in ("rpit", "async_trait") and any(k.name == "gen_method_ns" for k in kinds):
            return "a non-Send generic cannot be held by a future that is declared Send"
        if s.asyncness in ("rpit", "async_trait") and any(k.name in ("mut_wr",) for k in kinds):
            return "lifetime-carrying &mut params with boxed/rpit futures not generated"
        if s.receiver == "pin":
            return "Pin receiver with async not generated"
        if s.asyncness == "async_trait" and s.ret in ("self_mut",):
            return "not generated"
    if sum(1 for k in kinds if k.generic == "trait") > 1:
        return "one trait generic at most"
    if s.extra.get("type_tag") and s.asyncness != "sync":
        return "type tags only generated for sync methods"
    if s.extra.get("trait_lt") and (s.asyncness != "sync" or "ref_str" not in s.params
                                    or any(k.generic for k in kinds)):
        # calibration: a lifetime parameter on the trait together with a type-generic method (`fn m<T>` / `impl Trait`
        # argument) does not expand with the pinned macro ("expected one of `#`, `>`, `const`, identifier, or
        # lifetime, found `,`"): such traits are not accepted by the attribute, so they are outside the property
        return "trait-level lifetimes only generated for sync, non-generic methods with a &str parameter"
    if s.named_self_lifetime and s.receiver == "mut" and s.asyncness == "sync" and s.ret in ("self_mut", "u32", "unit"):
        pass  # `fn m<'s>(&'s mut self, ..) -> &'s mut u32`
    elif s.named_self_lifetime and (s.receiver != "ref" or s.asyncness != "sync"):
        return "named self lifetime only for &'a self sync methods"
    if s.named_self_lifetime and s.ret == "param_ref":
        return "lifetime name clash avoided"
    if s.receiver == "pin" and s.ret in ("self_ref", "self_str", "opt_self_ref"):
        return "kept simple"
    if s.asyncness == "rpit" and s.receiver in ("mut", "pin"):
        return "calibration: `-> impl Future` on a &mut self method is not accepted by the pinned macro (E0562)"
    return None


# ------------------------------------------------------------------------------------------------
# rendering

SUPPORT_RS = r'''
#![allow(dead_code, unused_variables, unused_mut, unused_imports, clippy::all)]
use std::sync::Mutex;

pub static LOG: Mutex<Vec<String>> = Mutex::new(Vec::new());

pub fn esc(s: &str) -> String {
    let mut o = String::new();
    for c in s.chars() {
        match c {
            '"' => o.push_str("\\\""),
            '\\' => o.push_str("\\\\"),
            '\n' => o.push_str("\\n"),
            '\r' => o.push_str("\\r"),
            '\t' => o.push_str("\\t"),
            c if (c as u32) < 0x20 => o.push_str(&format!("\\u{:04x}", c as u32)),
            c => o.push(c),
        }
    }
    o
}

/// one event: shape id, kind, probes (strings) and addresses
pub fn ev(shape: u32, kind: &str, probes: &[String], addrs: &[usize]) {
    let p: Vec<String> = probes.iter().map(|s| format!("\"{}\"", esc(s))).collect();
    let a: Vec<String> = addrs.iter().map(|a| a.to_string()).collect();
    LOG.lock().unwrap_or_else(|e| e.into_inner()).push(format!(
        "{{\"s\":{shape},\"k\":\"{kind}\",\"p\":[{}],\"a\":[{}]}}",
        p.join(","),
        a.join(",")
    ));
}

pub struct NoDbg(pub u32);
/// a future that is also a plain value (Debug prints the number, like the u16 it wraps)
#[derive(Clone, PartialEq)]
pub struct FutU16(pub u16);
impl std::fmt::Debug for FutU16 {
    fn fmt(&self, f: &mut std::fmt::Formatter<'_>) -> std::fmt::Result { std::fmt::Debug::fmt(&self.0, f) }
}
impl std::future::Future for FutU16 {
    type Output = ();
    fn poll(self: std::pin::Pin<&mut Self>, _: &mut std::task::Context<'_>) -> std::task::Poll<()> { std::task::Poll::Ready(()) }
}
pub struct Wr<'a>(pub &'a mut u32);

/// a zero-sized value type (marker / unit struct)
#[derive(Debug, Clone, PartialEq)]
pub struct Unit;
pub fn pr_u32(x: &u32) -> String { x.to_string() }
pub fn pr_u16(x: &u16) -> String { x.to_string() }
pub fn pr_i16(x: &i16) -> String { x.to_string() }
pub fn pr_str(x: &str) -> String { x.to_string() }
pub fn pr_bytes(x: &[u8]) -> String { format!("{x:?}").replace(' ', "") }
pub fn pr_nodbg(x: &NoDbg) -> String { x.0.to_string() }
pub fn pr_tup(x: &(u8, String)) -> String { format!("{}:{}", x.0, x.1) }
pub fn pr_arr(x: &[u8; 2]) -> String { format!("[{},{}]", x[0], x[1]) }
pub fn addr<T: ?Sized>(x: &T) -> usize { x as *const T as *const () as usize }

/// Minimal executor: polls with a no-op waker; returns the output and the number of polls.
pub fn block_on<F: std::future::Future>(f: F) -> (F::Output, u32) {
    use std::task::{Context, Poll, RawWaker, RawWakerVTable, Waker};
    fn raw() -> RawWaker {
        fn no(_: *const ()) {}
        fn clone(_: *const ()) -> RawWaker { raw() }
        static VT: RawWakerVTable = RawWakerVTable::new(clone, no, no, no);
        RawWaker::new(std::ptr::null(), &VT)
    }
    let waker = unsafe { Waker::from_raw(raw()) };
    let mut cx = Context::from_waker(&waker);
    let mut f = Box::pin(f);
    let mut polls = 0;
    loop {
        polls += 1;
        if let Poll::Ready(v) = f.as_mut().poll(&mut cx) {
            return (v, polls);
        }
        if polls > 1000 { panic!("future never completed"); }
    }
}

pub fn panic_text(p: Box<dyn std::any::Any + Send>) -> String {
    match p.downcast::<String>() {
        Ok(s) => *s,
        Err(p) => match p.downcast::<&'static str>() {
            Ok(s) => s.to_string(),
            Err(_) => "<non-string panic payload>".to_string(),
        },
    }
}
'''


def ret_sig(s: Shape):
    if s.named_self_lifetime and s.ret == "self_mut":
        return " -> &'s mut u32"
    if s.named_self_lifetime and s.ret in ("self_ref", "self_str", "opt_self_ref"):
        # calibration: `fn m<'s>(&'s self) -> &u32` (elided output) expands to an undeclared lifetime `'__u`
        return {"self_ref": " -> &'s u32", "self_str": " -> &'s str", "opt_self_ref": " -> Option<&'s u32>"}[s.ret]
    return {
        "unit": "",
        "u32": " -> u32",
        "string": " -> String",
        "self_ref": " -> &u32",
        "self_str": " -> &str",
        "self_mut": " -> &mut u32",
        "static_str": " -> &'static str",
        "param_ref": " -> &'a u32",
        "opt_self_ref": " -> Option<&u32>",
    }[s.ret]


def ret_type_plain(s: Shape):
    return {"unit": "()", "u32": "u32", "string": "String", "self_ref": "&u32", "self_str": "&str",
            "self_mut": "&mut u32", "static_str": "&'static str", "param_ref": "&'a u32",
            "opt_self_ref": "Option<&u32>"}[s.ret]


def answer_ret_expr(s: Shape, uname="u"):
    pr = None
    if s.ret == "param_ref":
        pr = "a%d" % s.params.index("ref_u32")
    return {
        "unit": "()",
        "u32": "4242u32",
        "string": 'String::from("ret")',
        "self_ref": f"{uname}.make_ref(4343u32)",
        "self_str": f'{uname}.make_ref(String::from("lent")).as_str()',
        "self_mut": f"{uname}.make_mut(77u32)",
        "static_str": '"static"',
        "param_ref": pr,
        "opt_self_ref": f"Some({uname}.make_ref(55u32))",
    }[s.ret]


def result_probe(s: Shape):
    """(rust expr producing a String from `r`, expected python string)"""
    return {
        "unit": ('{ let _: () = r; String::from("()") }', "()"),
        "u32": ("r.to_string()", "4242"),
        "string": ("r.clone()", "ret"),
        "self_ref": ("r.to_string()", "4343"),
        "self_str": ("r.to_string()", "lent"),
        "self_mut": ("{ *r += 1; r.to_string() }", "78"),
        "static_str": ("r.to_string()", "static"),
        "param_ref": ("r.to_string()", None),
        "opt_self_ref": ('r.map(|x| x.to_string()).unwrap_or_default()', "55"),
    }[s.ret]


def receiver_sig(s: Shape):
    return {"ref": "&'s self" if s.named_self_lifetime else "&self",
            "mut": "&'s mut self" if s.named_self_lifetime else "&mut self", "owned": "self",
            "box": "self: Box<Self>", "rc": "self: std::rc::Rc<Self>", "arc": "self: std::sync::Arc<Self>",
            "pin": "self: std::pin::Pin<&mut Self>"}[s.receiver]


def answer_self_ty(s: Shape):
    return {"ref": "&Unimock", "mut": "&mut Unimock", "owned": "Unimock", "box": "Box<Unimock>",
            "rc": "std::rc::Rc<Unimock>", "arc": "std::sync::Arc<Unimock>", "pin": "&mut Unimock"}[s.receiver]


def call_prefix(s: Shape):
    """(statements preparing `recv`, receiver expression)"""
    return {
        "ref": ("", "u"),
        "mut": ("let mut u = u;", "u"),
        "owned": ("", "u"),
        "box": ("let u = Box::new(u);", "u"),
        "rc": ("let u = std::rc::Rc::new(u); let _second_handle = u.clone();", "u"),
        "arc": ("let u = std::sync::Arc::new(u); let _second_handle = u.clone();", "u"),
        "pin": ("let mut u = u;", "std::pin::Pin::new(&mut u)"),
    }[s.receiver]


def render_trait(s: Shape, idx: int, trait_name="Tr", method="m", unmock_attr="", default_body=None,
                 extra_methods=""):
    kinds = [KINDS[p] for p in s.params]
    generics = []
    if s.named_self_lifetime:
        generics.append("'s")
    if s.ret == "param_ref":
        generics.append("'a")
    if any(k.name == "mut_u32_lt" for k in kinds):
        generics.append("'b")
    if s.extra.get("type_tag"):
        # a "type tag": a method-level generic that occurs in no parameter and not in the return type
        generics.append("K: 'static")
    for i, k in enumerate(kinds):
        if k.name == "gen_method_ns":
            generics.append(f"T{i}: std::fmt::Debug + Clone + 'static")
        elif k.generic == "method":
            generics.append(f"T{i}: std::fmt::Debug + Clone + Send + Sync + 'static")
    gen = f"<{', '.join(generics)}>" if generics else ""
    trait_gen = "<G: std::fmt::Debug + Clone + Send + Sync + 'static>" if any(k.generic == "trait" for k in kinds) else ""
    if s.extra.get("trait_lt"):
        # a lifetime parameter of the *trait*, used by a borrowed parameter
        trait_gen = "<'t>" if not trait_gen else "<'t, " + trait_gen[1:]
    params = []
    for i, k in enumerate(kinds):
        sig = k.sig.replace("{i}", str(i))
        if s.extra.get("trait_lt") and k.name == "ref_str":
            sig = "&'t str"
        if k.name == "ref_u32":
            sig = sig.replace("{L}", "'a " if s.ret == "param_ref" and i == s.params.index("ref_u32") else "")
        pname = f"p{i}"
        if s.extra.get("param_names") and default_body is None and not extra_methods:
            # the names written in the trait: they end up as identifiers inside the generated impl, next to the
            # macro's own locals
            pname = s.extra["param_names"][i]
        params.append(f"{pname}: {sig}")
    plist = ", ".join([receiver_sig(s)] + params)
    rsig = ret_sig(s)
    api = "api=M" if s.api == "module" else "api=[MFn" + (", " + s.extra["flat_extra"] if s.extra.get("flat_extra") else "") + "]"
    attr = f"#[unimock({api}{unmock_attr})]"
    body = ";" if default_body is None else " {\n" + default_body + "\n    }"
    if s.asyncness == "sync":
        decl = f"    fn {method}{gen}({plist}){rsig}{body}"
        pre = ""
    elif s.asyncness == "async_fn":
        decl = f"    async fn {method}{gen}({plist}){rsig}{body}"
        pre = ""
    elif s.asyncness == "async_trait":
        decl = f"    async fn {method}{gen}({plist}){rsig}{body}"
        pre = "#[::async_trait::async_trait]\n"
    else:  # rpit
        out = ret_type_plain(s)
        decl = f"    fn {method}{gen}({plist}) -> impl std::future::Future<Output = {out}> + Send{body}"
        pre = ""
    return f"{attr}\n{pre}pub trait {trait_name}{trait_gen} {{\n{decl}\n{extra_methods}}}\n"


def turbofish(s: Shape):
    """Explicit generic arguments at the call site: only needed for a type tag (the others are inferred)."""
    if not s.extra.get("type_tag"):
        return ""
    kinds = [KINDS[p] for p in s.params]
    named = sum(1 for k in kinds if k.generic == "method")
    return "::<" + ", ".join(["u8"] + ["_"] * named) + ">"


def mockfn_expr(s: Shape):
    kinds = [KINDS[p] for p in s.params]
    base = "M::m" if s.api == "module" else "MFn"
    gen_args = []
    for k in kinds:
        if k.generic == "trait":
            gen_args.insert(0, "i16")
    # order of with_types params: trait generics first, then method generics / impl traits in declaration order
    if s.extra.get("type_tag"):
        gen_args.append("u8")
    # (declared method generics come first, the synthetic generics of impl Trait parameters after them; the two
    # groups are instantiated at different types when a Future-bounded impl Trait is present, so a mix-up shows)
    for g in ("method", "impl"):
        for k in kinds:
            if k.generic == g:
                gen_args.append(k.elem_ty)
    if gen_args:
        return f"{base}.with_types::<{', '.join(gen_args)}>()"
    return base


def inputs_elem_ty(k: Kind, i):
    if k.impossible:
        return "Impossible"
    return (k.elem_ty or k.sig).replace("{L}", "").replace("{i}", str(i))


def matcher_closure(s: Shape, idx: int, accept="true", log=True):
    """`&|m| m.func(|inputs, _| {..})` logging what the matcher sees."""
    kinds = [KINDS[p] for p in s.params]
    n = len(kinds)
    if n == 0:
        pat = "_unit"
    elif n == 1:
        pat = "m0"
    else:
        pat = "(" + ", ".join(f"m{i}" for i in range(n)) + ")"
    probes, addrs = [], []
    for i, k in enumerate(kinds):
        if k.impossible:
            probes.append('String::from("<impossible>")')
            continue
        canon = k.canon_m.replace("{i}", str(i))
        probes.append(f"{PROBE_FN[k.base]}({canon})")
        if k.is_ref:
            addrs.append(f"addr({canon})")
    body = ""
    if log:
        body = f"ev({idx}, \"matcher\", &[{', '.join(probes)}], &[{', '.join(addrs)}]);"
    return f"&|m| m.func(|{pat}, _| {{ {body} {accept} }})"


def answer_fn_item(s: Shape, idx: int):
    """A named answer function with explicit lifetimes (closure inference cannot tie the return to a parameter)."""
    kinds = [KINDS[p] for p in s.params]
    j = s.params.index("ref_u32")
    params = [f"u: {answer_self_ty(s)}"]
    for i, k in enumerate(kinds):
        ty = (k.elem_ty or k.sig).replace("{i}", str(i)).replace("{L}", "'a " if i == j else "")
        if k.impossible:
            ty = k.sig
        params.append(f"{'mut ' if False else ''}a{i}: {ty}")
    body = answer_closure(s, idx)
    inner = body[body.index("{"):]
    return f"fn ans_{idx}<'a, 'b>({', '.join(params)}) -> &'a u32 {inner}"


def answer_closure(s: Shape, idx: int, uname="u"):
    kinds = [KINDS[p] for p in s.params]
    probes, addrs, muts = [], [], []
    for i, k in enumerate(kinds):
        canon = k.canon_a.replace("{i}", str(i))
        probes.append(f"{PROBE_FN[k.base]}({canon})")
        if k.is_ref:
            addrs.append(f"addr({canon})")
        if k.mutate:
            muts.append(k.mutate.replace("{i}", str(i)))
    params = ", ".join([uname] + [f"a{i}" for i in range(len(kinds))])
    return (f"&|{params}| {{ ev({idx}, \"answer\", &[{', '.join(probes)}], &[{', '.join(addrs)}]); "
            f"{' '.join(muts)} {answer_ret_expr(s, uname)} }}")


def caller_probes(s: Shape, after=False):
    kinds = [KINDS[p] for p in s.params]
    probes, addrs = [], []
    for i, k in enumerate(kinds):
        canon = k.canon_c.replace("{i}", str(i))
        probes.append(f"{PROBE_FN[k.base]}({canon})")
        if k.is_ref:
            addrs.append(f"addr({canon})")
    return probes, addrs


def render_forward(s: Shape, idx: int):
    """C05 driver. Returns (rust module text, expectation)."""
    kinds = [KINDS[p] for p in s.params]
    decls = "\n        ".join(k.decl.replace("{i}", str(i)).replace("{v}", str(value_of(i))) for i, k in enumerate(kinds))
    args = ", ".join(k.arg.replace("{i}", str(i)) for i, k in enumerate(kinds))
    pre, recv = call_prefix(s)
    cp, ca = caller_probes(s)
    rp_expr, rp_expect = result_probe(s)
    fish = turbofish(s)
    call = f"{recv}.m{fish}({args})"
    trait_use = "Tr::<i16>::m" if any(k.generic == "trait" for k in kinds) else None
    if trait_use:
        call = f"Tr::<i16>::m{fish}({'&' if s.receiver == 'ref' else ('&mut ' if s.receiver == 'mut' else '')}{recv}, {args})" \
            if s.receiver in ("ref", "mut") else f"Tr::<i16>::m{fish}({recv}, {args})"
    ans = f"&ans_{idx}" if s.ret == "param_ref" else answer_closure(s, idx)
    mock = (f"let u = Unimock::new({mockfn_expr(s)}.next_call({matcher_closure(s, idx)})"
            f".answers({ans}));")
    param_ref_check = ""
    if s.ret == "param_ref":
        j = s.params.index("ref_u32")
        param_ref_check = f'ev({idx}, "result_addr", &[], &[addr(r), addr(&p{j})]);'
    if s.asyncness == "sync":
        run = f"""
        {decls}
        {mock}
        {pre}
        ev({idx}, "caller_before", &[{', '.join(cp)}], &[{', '.join(ca)}]);
        let r = {call};
        ev({idx}, "result", &[{rp_expr}], &[]);
        {param_ref_check}
        ev({idx}, "caller_after", &[{', '.join(cp)}], &[]);
"""
    else:
        run = f"""
        {decls}
        {mock}
        {pre}
        ev({idx}, "caller_before", &[{', '.join(cp)}], &[{', '.join(ca)}]);
        let fut = {call};
        ev({idx}, "future_created", &[], &[]);
        let (r, polls) = block_on(fut);
        ev({idx}, "result", &[{rp_expr}, polls.to_string()], &[]);
        ev({idx}, "caller_after", &[{', '.join(cp)}], &[]);
"""
        # second scenario: the future is dropped without being polled
        if s.receiver in ("ref",):
            run += f"""
        {{
            {decls}
            let u = Unimock::new({mockfn_expr(s)}.each_call({matcher_closure(s, idx)})
                .answers({answer_closure(s, idx)})).no_verify_in_drop();
            let fut = {call};
            drop(fut);
            ev({idx}, "future_dropped_unpolled", &[], &[]);
        }}
"""
    text = f"""// shape {idx}: {s.key()}
use super::support::*;
use unimock::*;

{render_trait(s, idx)}
{answer_fn_item(s, idx) if s.ret == "param_ref" else ""}
pub fn run() {{
    {{
{run}
    }}
}}
"""
    exp = {
        "idx": idx,
        "mode": "forward",
        "shape": json.loads(s.key()),
        "caller": [py_probe(k, i) for i, k in enumerate(kinds)],
        "matcher": ["<impossible>" if k.impossible else py_probe(k, i) for i, k in enumerate(kinds)],
        "answer": [py_probe(k, i) for i, k in enumerate(kinds)],
        "after": [py_probe(k, i, mutated=True) for i, k in enumerate(kinds)],
        "result": rp_expect if s.ret != "param_ref" else py_probe(KINDS["ref_u32"], s.params.index("ref_u32")),
        "ref_positions": [i for i, k in enumerate(kinds) if k.is_ref],
        "ref_positions_matcher": [i for i, k in enumerate(kinds) if k.is_ref and not k.impossible],
        "async": s.asyncness != "sync",
        "unpolled": s.asyncness != "sync" and s.receiver == "ref",
        "param_ref": s.ret == "param_ref",
    }
    return text, exp


def check_forward(exp, events):
    """events: list of dicts for this shape, in order. Returns a discrepancy string or None."""
    kinds = [e["k"] for e in events]
    unpolled_tail = []
    if exp["unpolled"]:
        # the second scenario must show no matcher/answer event between its creation and the drop marker
        if "future_dropped_unpolled" not in kinds:
            return "the unpolled-future scenario did not complete"
        cut = kinds.index("caller_after") + 1 if "caller_after" in kinds else len(kinds)
        unpolled_tail = events[cut:]
        events = events[:cut]
        kinds = kinds[:cut]
        bad = [e["k"] for e in unpolled_tail if e["k"] in ("matcher", "answer")]
        if bad:
            return f"a future dropped without being polled still evaluated the call: events {bad}"
    want_order = ["caller_before"] + (["future_created"] if exp["async"] else []) + ["matcher", "answer", "result"] \
        + (["result_addr"] if exp["param_ref"] else []) + ["caller_after"]
    # the matcher may legitimately be evaluated more than once (diagnostics); the answer exactly once
    if kinds.count("answer") != 1:
        return f"answer function ran {kinds.count('answer')} times for one call (events {kinds})"
    if kinds.count("matcher") < 1:
        return f"input matcher never ran (events {kinds})"
    dedup = [k for i, k in enumerate(kinds) if not (k == "matcher" and i > 0 and kinds[i - 1] == "matcher")]
    if dedup != want_order:
        return f"event order {kinds}, expected {want_order}"
    by = {}
    for e in events:
        by.setdefault(e["k"], e)
    if by["caller_before"]["p"] != exp["caller"]:
        return f"harness bug: caller probes {by['caller_before']['p']} != {exp['caller']}"
    for e in events:
        if e["k"] == "matcher" and e["p"] != exp["matcher"]:
            return f"matcher saw {e['p']}, caller passed {exp['matcher']}"
    if by["answer"]["p"] != exp["answer"]:
        return f"answer function received {by['answer']['p']}, caller passed {exp['answer']}"
    res = by["result"]["p"]
    if res[0] != exp["result"]:
        return f"method returned {res[0]!r}, the answer function returned {exp['result']!r}"
    if exp["async"] and res[1] != "1":
        return f"future needed {res[1]} polls"
    if by["caller_after"]["p"] != exp["after"]:
        return f"caller's variables after the call {by['caller_after']['p']}, expected {exp['after']} (mutations through &mut)"
    # addresses: reference parameters must be the caller's objects
    ca = by["caller_before"]["a"]
    aa = by["answer"]["a"]
    if ca != aa:
        return f"reference parameters seen by the answer function are not the caller's objects: {aa} vs {ca}"
    cm = [ca[exp["ref_positions"].index(i)] for i in exp["ref_positions_matcher"]]
    for e in events:
        if e["k"] == "matcher" and e["a"] != cm:
            return f"reference parameters seen by the matcher are not the caller's objects: {e['a']} vs {cm}"
    if exp["param_ref"]:
        ra = by["result_addr"]["a"]
        if ra[0] != ra[1]:
            return "returned reference does not point at the caller's argument"
    return None


def render_message(s: Shape, idx: int):
    """C19 driver: three failing calls (no clause at all, unordered pattern rejecting, ordered pattern rejecting);
    the panic texts must render the call as Trait::method(Debug of every argument, `?` for non-Debug types)."""
    kinds = [KINDS[p] for p in s.params]
    decls = "\n        ".join(k.decl.replace("{i}", str(i)).replace("{v}", str(value_of(i))) for i, k in enumerate(kinds))
    args = ", ".join(k.arg.replace("{i}", str(i)) for i, k in enumerate(kinds))
    pre, recv = call_prefix(s)
    fish = turbofish(s)
    call = f"{recv}.m{fish}({args})"
    if any(k.generic == "trait" for k in kinds):
        call = f"Tr::<i16>::m{fish}({'&' if s.receiver == 'ref' else ('&mut ' if s.receiver == 'mut' else '')}{recv}, {args})" \
            if s.receiver in ("ref", "mut") else f"Tr::<i16>::m{fish}({recv}, {args})"
    # rustc's own Debug at the call site (for the kinds that implement it)
    dbg = []
    for i, k in enumerate(kinds):
        if k.debug:
            canon = k.canon_c.replace("{i}", str(i))
            if k.name == "opt_ref":
                dbg.append(f'format!("{{:?}}", Some({canon}))')
            else:
                dbg.append(f'format!("{{:?}}", {canon})')
        else:
            dbg.append('String::from("?")')
    reject = matcher_closure(s, idx, accept="false", log=False)
    scenarios = [
        ("no_clause", "Unimock::new(())"),
        ("unordered_reject", f"Unimock::new({mockfn_expr(s)}.each_call({reject}).answers({answer_closure(s, idx) if s.ret != 'param_ref' else '&ans_%d' % idx}))"),
        ("ordered_reject", f"Unimock::new({mockfn_expr(s)}.next_call({reject}).answers({answer_closure(s, idx) if s.ret != 'param_ref' else '&ans_%d' % idx}))"),
    ]
    blocks = []
    for name, mk in scenarios:
        blocks.append(f"""
    {{
        {decls}
        let u = {mk}.no_verify_in_drop();
        {pre}
        let dbg: Vec<String> = vec![{', '.join(dbg)}];
        let r = std::panic::catch_unwind(std::panic::AssertUnwindSafe(move || {{ let _ = {call}; }}));
        match r {{
            Ok(()) => ev({idx}, "no_panic_{name}", &[], &[]),
            Err(p) => {{
                let mut probes = vec![panic_text(p)];
                probes.extend(dbg);
                ev({idx}, "panic_{name}", &probes, &[]);
            }}
        }}
    }}""")
    text = f"""// message shape {idx}: {s.key()}
use super::support::*;
use unimock::*;

{render_trait(s, idx)}
{answer_fn_item(s, idx) if s.ret == "param_ref" else ""}
pub fn run() {{
{''.join(blocks)}
}}
"""
    exp = {"idx": idx, "mode": "message", "shape": json.loads(s.key()),
           "debug": [py_debug(k, i) for i, k in enumerate(kinds)],
           "scenarios": [n for n, _ in scenarios]}
    return text, exp


def check_message(exp, events):
    import re
    ansi = re.compile(r"\x1b\[[0-9;]*m")
    by = {e["k"]: e for e in events}
    if "driver_panic" in by:
        return f"driver panicked: {by['driver_panic']['p']}"
    needles = {"no_clause": "No mock implementation found", "unordered_reject": "No matching call patterns",
               "ordered_reject": "inputs didn't match"}
    for name in exp["scenarios"]:
        e = by.get(f"panic_{name}")
        if e is None:
            return f"{name}: the call did not panic (events {[x['k'] for x in events]})"
        text = ansi.sub("", e["p"][0])
        rust_dbg = e["p"][1:]
        want = [d if d is not None else "?" for d in exp["debug"]]
        if rust_dbg != want:
            return f"harness bug: rustc Debug {rust_dbg} vs generator {want}"
        call = "Tr::m(" + ", ".join(want) + ")"
        if not text.startswith(call + ":"):
            # known finding F4: a `&mut T<'_>` argument is rendered as the placeholder `Impossible`
            alt = ["Impossible" if p == "mut_wr" else w for p, w in zip(exp["shape"][1], want)]
            if alt != want and text.startswith("Tr::m(" + ", ".join(alt) + "):"):
                return f"F4:{name}: a `&mut Wr<'_>` argument is rendered as `Impossible` instead of its Debug rendering / `?`: {text[:160]!r}"
            return f"{name}: message does not render the call as {call!r}: {text[:240]!r}"
        if needles[name] not in text:
            return f"{name}: unexpected error kind: {text[:240]!r}"
    return None


# ------------------------------------------------------------------------------------------------
# crate assembly, build, run

CARGO_TOML = """[package]
name = "{name}"
version = "0.0.0"
edition = "2021"
publish = false

[dependencies]
unimock = {{ path = "/repo", default-features = false, features = [{features}] }}
async-trait = "0.1"
{extra_deps}
[profile.dev]
debug = 0
opt-level = 0
incremental = false

[workspace]
"""


def write_crate(dirpath, name, modules, features=("std",), extra_deps="", main_extra="", extra_files=None):
    """modules: list of (modname, text). Writes the crate; returns nothing."""
    os.makedirs(os.path.join(dirpath, "src"), exist_ok=True)
    feats = ", ".join(f'"{f}"' for f in features)
    with open(os.path.join(dirpath, "Cargo.toml"), "w") as f:
        f.write(CARGO_TOML.format(name=name, features=feats, extra_deps=extra_deps))
    lock_src = "/repo/Cargo.lock"
    if os.path.exists(lock_src):
        with open(lock_src) as a, open(os.path.join(dirpath, "Cargo.lock"), "w") as b:
            b.write(a.read())
    os.makedirs(os.path.join(dirpath, ".cargo"), exist_ok=True)
    with open(os.path.join(dirpath, ".cargo", "config.toml"), "w") as f:
        f.write("[net]\noffline = true\n")
    with open(os.path.join(dirpath, "src", "support.rs"), "w") as f:
        f.write(SUPPORT_RS)
    for fname, ftext in (extra_files or {}).items():
        with open(os.path.join(dirpath, "src", fname), "w") as f:
            f.write(ftext)
    for modname, text in modules:
        with open(os.path.join(dirpath, "src", modname + ".rs"), "w") as f:
            f.write("#![allow(dead_code, unused_variables, unused_mut, unused_imports, non_snake_case, "
                    "non_camel_case_types, clippy::all)]\n" + text)
    main = ["#![allow(dead_code, unused_variables, unused_mut, unused_imports, clippy::all)]", "mod support;"]
    for modname, _ in modules:
        main.append(f"mod {modname};")
    main.append(main_extra)
    main.append("fn main() {")
    main.append("    std::panic::set_hook(Box::new(|_| {}));")
    main.append("    let only: Option<String> = std::env::args().nth(1);")
    for modname, _ in modules:
        main.append(f'    if only.as_deref().map(|o| o == "{modname}").unwrap_or(true) {{')
        main.append(f"        let r = std::panic::catch_unwind(|| {modname}::run());")
        main.append(f'        if let Err(p) = r {{ support::ev({int(modname.split("_")[1])}, "driver_panic", &[support::panic_text(p)], &[]); }}')
        main.append("    }")
    main.append('    for l in support::LOG.lock().unwrap_or_else(|e| e.into_inner()).iter() { println!("{l}"); }')
    main.append("}")
    with open(os.path.join(dirpath, "src", "main.rs"), "w") as f:
        f.write("\n".join(main) + "\n")


def build_crate(dirpath, target_dir, env, timeout=1800):
    """Returns (ok, errors_by_file: dict file->list of messages, raw tail)."""
    cmd = ["cargo", "build", "--offline", "--message-format=json", "--target-dir", target_dir]
    r = subprocess.run(cmd, cwd=dirpath, env=env, stdout=subprocess.PIPE, stderr=subprocess.PIPE, text=True,
                       timeout=timeout)
    errors = {}
    exe = None
    for line in r.stdout.splitlines():
        try:
            m = json.loads(line)
        except ValueError:
            continue
        if m.get("reason") == "compiler-message" and m["message"].get("level") == "error":
            msg = m["message"]
            files = [sp["file_name"] for sp in msg.get("spans", []) if sp.get("is_primary")] or \
                    [sp["file_name"] for sp in msg.get("spans", [])]
            # errors inside macro expansions point into the macro crate: use the expansion's call site
            def outer(sp):
                while sp.get("expansion"):
                    sp = sp["expansion"]["span"]
                return sp["file_name"]
            files = [outer(sp) for sp in msg.get("spans", [])] or files
            key = os.path.basename(files[0]) if files else "?"
            errors.setdefault(key, []).append((msg.get("code") or {}).get("code", "") + ": " + msg.get("message", ""))
        if m.get("reason") == "compiler-artifact" and m.get("executable"):
            exe = m["executable"]
    return r.returncode == 0, errors, exe, r.stderr[-3000:]


def run_crate(exe, env, timeout=600):
    r = subprocess.run([exe], env=env, stdout=subprocess.PIPE, stderr=subprocess.PIPE, text=True, timeout=timeout)
    events = []
    for line in r.stdout.splitlines():
        try:
            events.append(json.loads(line))
        except ValueError:
            pass
    return r.returncode, events, r.stderr[-2000:]


# ------------------------------------------------------------------------------------------------
# shape sets


def core_shapes_forward():
    """A deterministic pairwise-style core set for C05."""
    shapes = []
    plain = ["u32", "string", "nodbg", "ref_u32", "refref_u32", "ref_str", "ref_bytes", "ref_nodbg", "mut_u32",
             "mut_u32_lt", "mut_vec", "mut_wr", "opt_ref", "tuple", "array", "boxed", "gen_method", "gen_method_ns", "gen_impl", "gen_trait"]
    # every kind alone, on every receiver
    for r in RECEIVERS:
        for k in plain:
            shapes.append(Shape(r, [k], "u32"))
    # arities 0..5 with rotating kinds, returns rotating
    rets = RETURNS
    n = 0
    for arity in range(0, 6):
        for rot in range(0, len(plain), 2):
            params = [plain[(rot + j * 5) % len(plain)] for j in range(arity)]
            for r in RECEIVERS:
                ret = rets[n % len(rets)]
                n += 1
                if ret == "param_ref" and "ref_u32" not in params and arity > 0:
                    params[0] = "ref_u32"
                shapes.append(Shape(r, list(params), ret, api=APIS[n % 2]))
    # async forms
    for a in ["async_fn", "async_trait", "rpit"]:
        for r in ["ref", "mut", "owned", "box", "arc"]:
            for params in (["u32"], ["ref_str", "u32"], ["string", "ref_u32", "mut_u32"], [],
                           ["mut_vec", "ref_bytes", "nodbg", "u32"], ["gen_method", "ref_str"],
                           ["u32", "gen_method_ns"]):
                for ret in ("u32", "string", "self_ref", "unit", "opt_self_ref"):
                    shapes.append(Shape(r, list(params), ret, asyncness=a))
    # type tags (a method generic that no parameter mentions), alone and next to impl Trait / generic parameters
    for r in ["ref", "mut", "owned"]:
        for params in ([], ["u32"], ["gen_impl"], ["ref_str", "gen_impl"], ["gen_method", "gen_impl"], ["gen_method"]):
            shapes.append(Shape(r, list(params), "u32", extra={"type_tag": True}))
    # a lifetime parameter on the trait, used in a parameter type
    for r in ["ref", "mut", "owned"]:
        for params in (["ref_str"], ["u32", "ref_str", "mut_u32"], ["ref_str", "ref_str"]):
            for ret in ("u32", "string"):
                shapes.append(Shape(r, list(params), ret, extra={"trait_lt": True}))
    # several impl Trait parameters, one of them (at every position) with a Future bound
    for r in ["ref", "mut", "owned"]:
        for params in (["gen_impl_fut"], ["gen_impl_fut", "gen_impl"], ["gen_impl", "gen_impl_fut"],
                       ["gen_impl_fut", "u32", "gen_impl", "gen_method"], ["gen_impl", "gen_impl_fut", "gen_impl"],
                       ["gen_impl_fut", "gen_impl_fut"]):
            # ("always": kept by every sampling of the core set, see engine_b.select_shapes)
            always = r in ("ref", "mut") and len(params) > 1 and params[0] != params[-1] or params[1:2] == ["gen_impl_fut"]
            shapes.append(Shape(r, list(params), "u32", extra={"always": True} if always else {}))
    # parameters named like the generated impl's own locals, on every receiver
    for r in RECEIVERS:
        for names in (["cont", "output"], ["eval", "inputs"], ["unimock", "answer_fn"], ["a0", "m0"]):
            extra = {"param_names": list(names)}
            if names[0] == "cont" and r in ("ref", "mut", "pin"):
                extra["always"] = True
            shapes.append(Shape(r, ["u32", "ref_str"], "u32", extra=extra))
        extra = {"param_names": ["output", "cont", "this"]}
        if r == "mut":
            extra["always"] = True
        shapes.append(Shape(r, ["mut_u32", "u32", "string"], "string", extra=extra))
    # named self lifetime
    for params in (["u32"], ["ref_str", "mut_u32"], []):
        for ret in ("self_ref", "u32", "self_str"):
            shapes.append(Shape("ref", list(params), ret, named_self_lifetime=True))
    for params in (["u32"], ["ref_str", "mut_u32"], []):
        for ret in ("self_mut", "u32"):
            shapes.append(Shape("mut", list(params), ret, named_self_lifetime=True))
    out, seen = [], set()
    for s in shapes:
        if supported(s) is None and s.key() not in seen:
            seen.add(s.key())
            out.append(s)
    return out


# parameter names that coincide with identifiers the generated impl uses itself
HOSTILE_PARAM_NAMES = ["cont", "output", "eval", "inputs", "unimock", "args", "a0", "m0", "mismatch", "reporter",
                       "value", "result", "answer_fn", "this", "polonius"]


def random_shape(rng: random.Random):
    kinds = list(KINDS)
    for _ in range(200):
        arity = rng.choice([0, 1, 1, 2, 2, 3, 3, 4, 5])
        params = [rng.choice(kinds) for _ in range(arity)]
        # at most one of each generic flavour to keep with_types simple
        for g in ("gen_trait",):
            while params.count(g) > 1:
                params[params.index(g)] = "u32"
        s = Shape(rng.choice(RECEIVERS), params, rng.choice(RETURNS),
                  asyncness=rng.choice(["sync", "sync", "sync", "async_fn", "async_trait", "rpit"]),
                  api=rng.choice(APIS), named_self_lifetime=rng.random() < 0.1)
        if s.asyncness == "sync" and rng.random() < 0.12:
            s.extra = {"type_tag": True}
        elif s.asyncness == "sync" and "ref_str" in s.params and rng.random() < 0.3:
            s.extra = {"trait_lt": True}
        if supported(s) is None:
            if arity and rng.random() < 0.2:
                s.extra = dict(s.extra or {})
                s.extra["param_names"] = rng.sample(HOSTILE_PARAM_NAMES, arity)
            return s
    raise RuntimeError("no supported shape found")
