"""Engine B, C06 / C19: generated `matching!` patterns evaluated over a whole finite argument domain.

For every generated pattern the program evaluates, for every argument tuple of the domain:
  (U) unordered evaluation (diagnostics off): partial mock, `each_call(matching!(..)).returns(1)`, rejection falls through
      to a real function returning 0;
  (O) ordered evaluation (diagnostics on): a fresh `next_call(matching!(..)).returns(1)` mock, rejection = caught panic;
  (R) a hand-shaped Rust `match` with the same patterns, guard and ==/!= comparisons (string / slice literals applied
      through AsRef), compiled by rustc in the same crate.
The generator evaluates the pattern AST itself (P). U, O must equal P; if R != P the oracle is wrong and the case is
discarded and counted (inconclusive).
"""
import itertools
import json
import random
from dataclasses import dataclass, field
from typing import List, Optional

# ------------------------------------------------------------------------------------------------
# types and domains


class Ty:
    def __init__(self, name, rust, values, lit, sig=None, debug=None, by_ref=False):
        self.name = name
        self.rust = rust            # type in the trait signature
        self.values = values        # python values
        self.lit = lit              # python value -> rust expression constructing an owned/ref value
        self.debug = debug          # python value -> `{:?}` text
        self.by_ref = by_ref        # parameter is a reference (&str, &[i32])


def _opt(v):
    return "None" if v is None else f"Some({v})"


def _enum(v):
    if v[0] == "A":
        return "E::A"
    if v[0] == "B":
        return f"E::B({v[1]})"
    return f"E::C {{ x: {v[1]}, y: {v[2]} }}"


def _enum_dbg(v):
    if v[0] == "A":
        return "A"
    if v[0] == "B":
        return f"B({v[1]})"
    return f"C {{ x: {v[1]}, y: {v[2]} }}"


TYPES = {
    "i32": Ty("i32", "i32", [0, 1, 2, 3, 7], lambda v: f"{v}i32", debug=lambda v: str(v)),
    "bool": Ty("bool", "bool", [False, True], lambda v: "true" if v else "false", debug=lambda v: "true" if v else "false"),
    "opt": Ty("opt", "Option<i32>", [None, 0, 1, 2], _opt, debug=_opt),
    "str": Ty("str", "&str", ["", "a", "ab", "b"], lambda v: json.dumps(v), debug=lambda v: json.dumps(v), by_ref=True),
    "string": Ty("string", "String", ["", "a", "ab", "b"], lambda v: f"String::from({json.dumps(v)})",
                 debug=lambda v: json.dumps(v)),
    "name": Ty("name", "Name", ["", "a", "ab", "b"], lambda v: f"Name(String::from({json.dumps(v)}))",
               debug=lambda v: f"Name({json.dumps(v)})"),
    "enum": Ty("enum", "E", [("A",), ("B", 0), ("B", 1), ("C", 0, 1), ("C", 1, 1)], _enum, debug=_enum_dbg),
    "tup": Ty("tup", "(i32, i32)", [(0, 0), (0, 1), (1, 0), (1, 1)], lambda v: f"({v[0]}, {v[1]})",
              debug=lambda v: f"({v[0]}, {v[1]})"),
    "pstruct": Ty("pstruct", "P", [(0, 0), (0, 1), (1, 1), (2, 0)], lambda v: f"P {{ x: {v[0]}, y: {v[1]} }}",
                  debug=lambda v: f"P {{ x: {v[0]}, y: {v[1]} }}"),
    "slice": Ty("slice", "&[i32]", [(), (1,), (1, 2), (2, 1), (1, 2, 3)],
                lambda v: "&[" + ", ".join(str(x) for x in v) + "][..]" if v else "&[][..]",
                debug=lambda v: "[" + ", ".join(str(x) for x in v) + "]", by_ref=True),
    "vec": Ty("vec", "Vec<i32>", [(), (1,), (1, 2), (2, 1), (1, 2, 3)],
              lambda v: "vec![" + ", ".join(str(x) for x in v) + "]",
              debug=lambda v: "[" + ", ".join(str(x) for x in v) + "]"),
}

PRELUDE = """
#[derive(Debug, Clone, PartialEq)]
pub enum E { A, B(i32), C { x: i32, y: i32 } }
#[derive(Debug, Clone, PartialEq)]
pub struct P { pub x: i32, pub y: i32 }
#[derive(Debug, Clone, PartialEq)]
pub struct Name(pub String);
impl AsRef<str> for Name { fn as_ref(&self) -> &str { &self.0 } }
"""

# ------------------------------------------------------------------------------------------------
# pattern AST: (src, eval, simple, top_kind)


@dataclass
class Pat:
    src: str
    ev: object                 # function(value, binds dict) -> bool
    simple: bool = True        # the doc renderer elides nothing
    top: str = "other"         # "litstr" | "slice" | "other" | "wild" | "cmp"
    doc: Optional[str] = None  # expected rendering in messages (only meaningful when simple)
    binds: List[str] = field(default_factory=list)
    cmp: Optional[tuple] = None   # ("eq"|"ne", rust operand expr, python value)

    def rendered(self):
        return self.doc if self.doc is not None else self.src


def p_wild():
    return Pat("_", lambda v, b: True, top="wild")


def p_bind(name):
    def ev(v, b):
        b[name] = v
        return True
    return Pat(name, ev, binds=[name])


def gen_int(rng, depth=0, allow_bind=None, open_range=True):
    r = rng.random()
    if r < 0.15:
        return p_wild()
    if r < 0.5:
        k = rng.choice([0, 1, 2, 3, 7, 5])
        return Pat(str(k), lambda v, b, k=k: v == k)
    if r < 0.65:
        lo = rng.choice([0, 1, 2])
        hi = lo + rng.choice([0, 1, 2, 5])
        return Pat(f"{lo}..={hi}", lambda v, b, lo=lo, hi=hi: lo <= v <= hi)
    if r < 0.72 and open_range:
        # ranges with one end open, and (exclusive) `lo..hi`
        form = rng.choice(["from", "from", "to_incl", "to_incl", "excl"])
        if form == "to_incl":
            hi = rng.choice([0, 1, 2, 5])
            return Pat(f"..={hi}", lambda v, b, hi=hi: v <= hi)
        if form == "excl":
            lo = rng.choice([0, 1, 2])
            hi = lo + rng.choice([1, 2, 5])
            return Pat(f"{lo}..{hi}", lambda v, b, lo=lo, hi=hi: lo <= v < hi)
        lo = rng.choice([1, 2, 3])
        return Pat(f"{lo}..", lambda v, b, lo=lo: v >= lo)
    if r < 0.9:
        ks = sorted(rng.sample([0, 1, 2, 3, 7], rng.choice([2, 3])))
        return Pat(" | ".join(str(k) for k in ks), lambda v, b, ks=ks: v in ks)
    if allow_bind:
        name = allow_bind
        lo, hi = 1, rng.choice([2, 3])

        def ev(v, b, name=name, lo=lo, hi=hi):
            b[name] = v
            return lo <= v <= hi
        return Pat(f"{name} @ {lo}..={hi}", ev, binds=[name])
    return p_wild()


def gen_bool(rng):
    k = rng.random() < 0.5
    return Pat("true" if k else "false", lambda v, b, k=k: v == k) if rng.random() < 0.8 else p_wild()


def gen_opt(rng):
    r = rng.random()
    if r < 0.15:
        return p_wild()
    if r < 0.4:
        return Pat("None", lambda v, b: v is None)
    inner = gen_int(rng)
    return Pat(f"Some({inner.src})", lambda v, b, inner=inner: v is not None and inner.ev(v, b),
               simple=inner.simple, binds=list(inner.binds))


def gen_str(rng):
    r = rng.random()
    if r < 0.15:
        return p_wild()
    if r < 0.6:
        k = rng.choice(["", "a", "ab", "b", "zz"])
        return Pat(json.dumps(k), lambda v, b, k=k: v == k, top="litstr")
    ks = sorted(rng.sample(["", "a", "ab", "b"], 2))
    return Pat(" | ".join(json.dumps(k) for k in ks), lambda v, b, ks=ks: v in ks, top="litstr")


def gen_enum(rng):
    r = rng.random()
    if r < 0.1:
        return p_wild()
    if r < 0.3:
        return Pat("E::A", lambda v, b: v[0] == "A", simple=False)
    if r < 0.6:
        inner = gen_int(rng)
        return Pat(f"E::B({inner.src})", lambda v, b, inner=inner: v[0] == "B" and inner.ev(v[1], b), simple=False)
    px = gen_int(rng)
    if rng.random() < 0.5:
        return Pat(f"E::C {{ x: {px.src}, .. }}", lambda v, b, px=px: v[0] == "C" and px.ev(v[1], b), simple=False)
    py = gen_int(rng)
    return Pat(f"E::C {{ x: {px.src}, y: {py.src} }}",
               lambda v, b, px=px, py=py: v[0] == "C" and px.ev(v[1], b) and py.ev(v[2], b), simple=False)


def gen_tup(rng):
    if rng.random() < 0.1:
        return p_wild()
    a, c = gen_int(rng), gen_int(rng)
    return Pat(f"({a.src}, {c.src})", lambda v, b, a=a, c=c: a.ev(v[0], b) and c.ev(v[1], b))


def gen_pstruct(rng):
    if rng.random() < 0.1:
        return p_wild()
    a = gen_int(rng)
    if rng.random() < 0.5:
        return Pat(f"P {{ x: {a.src}, .. }}", lambda v, b, a=a: a.ev(v[0], b), simple=False)
    if rng.random() < 0.3:
        return Pat(f"P {{ y: {a.src}, .. }}", lambda v, b, a=a: a.ev(v[1], b), simple=False)
    c = gen_int(rng)
    return Pat(f"P {{ x: {a.src}, y: {c.src} }}", lambda v, b, a=a, c=c: a.ev(v[0], b) and c.ev(v[1], b), simple=False)


def gen_slice(rng):
    r = rng.random()
    if r < 0.1:
        return p_wild()
    if r < 0.2:
        return Pat("[]", lambda v, b: len(v) == 0, top="slice")
    # (`X..` range patterns are not allowed inside slice patterns in Rust)
    a = gen_int(rng, open_range=False)
    form = rng.choice(["one", "head", "tail", "two", "headrest", "atleast2"])
    if form == "one":
        return Pat(f"[{a.src}]", lambda v, b, a=a: len(v) == 1 and a.ev(v[0], b), top="slice")
    if form == "head":
        return Pat(f"[{a.src}, ..]", lambda v, b, a=a: len(v) >= 1 and a.ev(v[0], b), top="slice")
    if form == "tail":
        return Pat(f"[.., {a.src}]", lambda v, b, a=a: len(v) >= 1 and a.ev(v[-1], b), top="slice")
    if form == "two":
        c = gen_int(rng, open_range=False)
        return Pat(f"[{a.src}, {c.src}]", lambda v, b, a=a, c=c: len(v) == 2 and a.ev(v[0], b) and c.ev(v[1], b),
                   top="slice")
    if form == "headrest":
        # binding names must be unique within one matching! invocation
        name = f"rest{rng.randrange(10**6)}"
        return Pat(f"[{a.src}, {name} @ ..]", lambda v, b, a=a: len(v) >= 1 and a.ev(v[0], b), top="slice",
                   doc=f"[{a.src}, {name} @ ..]")
    return Pat("[_, _, ..]", lambda v, b: len(v) >= 2, top="slice")


def or_of(gen, p_or=0.18):
    """An argument pattern that is itself an or-pattern `p | q | ..` of compound sub-patterns (the cases may differ
    only in what a lossy rendering drops: struct fields, payloads): every case counts."""
    def g(rng):
        if rng.random() >= p_or:
            return gen(rng)
        cases = [gen(rng) for _ in range(rng.choice([2, 2, 3]))]
        if any(c.src == "_" or c.binds for c in cases):
            return cases[0]
        return Pat(" | ".join(c.src for c in cases), lambda v, b, cases=cases: any(c.ev(v, b) for c in cases),
                   simple=False, top=cases[0].top if all(c.top == cases[0].top for c in cases) else "other")
    return g


GEN = {"i32": gen_int, "bool": gen_bool, "opt": or_of(gen_opt), "str": gen_str, "string": gen_str, "name": gen_str,
       "enum": or_of(gen_enum), "tup": gen_tup, "pstruct": or_of(gen_pstruct, 0.3), "slice": gen_slice,
       "vec": gen_slice}
# (calibration: no argument-level or-pattern of *tuple* patterns - `(1, 5) | (3, 1), "x"` starts with a parenthesis
# followed by `|`, which the input grammar reads as the disjunctive form `(..) | (..)`: "Expected tuple" /
# "Excessive tokens" at expansion time, nothing is executed)

CMP_TYPES = {"i32": lambda v: f"&{v}", "opt": lambda v: "&" + _opt(v), "tup": lambda v: f"&({v[0]}, {v[1]})",
             "enum": lambda v: "&" + _enum(v)}


def gen_cmp(rng, tyname):
    ty = TYPES[tyname]
    v = rng.choice(ty.values)
    op = rng.choice(["eq", "ne"])
    operand = CMP_TYPES[tyname](v)
    ev = (lambda x, b, v=v: x == v) if op == "eq" else (lambda x, b, v=v: x != v)
    return Pat(f"{op}!({operand})", ev, simple=False, top="cmp", cmp=(op, operand, v))


# ------------------------------------------------------------------------------------------------
# cases


import re as _re
# a stand-alone identifier `a` or `b` (not part of a longer name, a string/byte-string prefix, a path or a macro name)
_RENAME_RE = _re.compile(r"(?<![\w\"'.:])(a|b)(?![\w\"'!(:])")
HOSTILE_NAMES = [("a0", "a1"), ("a1", "a0"), ("a1", "a2"), ("l0", "l1"), ("l1", "l0"), ("m0", "m1"), ("m1", "m0"),
                 ("m1", "l0"), ("l0", "a1"), ("a2", "m0"), ("m2", "l1"), ("reporter", "mismatch"), ("_m", "l0")]


@dataclass
class Case:
    types: List[str]
    alts: List[List[Pat]]          # 1..2 alternatives, each one pattern per argument
    guard: Optional[tuple] = None  # (rust source, python function(binds) -> bool)

    # Binding names as written in the program. The generator works with `a` / `b`; a case may carry a renaming to
    # names that coincide with identifiers the macro generates itself (`a<i>` closure parameters, `m<i>` binders and
    # `l<n>` operand locals of eq!/ne!): user bindings and operands must never be captured by them.
    rename: Optional[dict] = None

    def r(self, s):
        if not self.rename or s is None:
            return s
        return _RENAME_RE.sub(lambda m: self.rename.get(m.group(1), m.group(1)), s)

    def guard_src(self):
        return self.r(self.guard[0]) if self.guard else None

    def key(self):
        return json.dumps([self.types, [[self.r(p.src) for p in a] for a in self.alts], self.guard_src()])

    def matching_src(self):
        n = len(self.types)
        if n == 0 and len(self.alts) == 1 and not self.guard:
            return ""
        if len(self.alts) == 1 and not self.guard:
            return ", ".join(self.r(p.src) for p in self.alts[0])
        parts = ["(" + ", ".join(self.r(p.src) for p in a) + ")" for a in self.alts]
        s = " | ".join(parts)
        if self.guard:
            s += " if " + self.guard_src()
        return s

    def accepts(self, values):
        for alt in self.alts:
            binds = {}
            if all(p.ev(v, binds) for p, v in zip(alt, values)):
                if self.guard is None or self.guard[1](binds):
                    return True
        return False

    def arg_kind(self, i):
        """How the reference `match` must look at argument i (the property's AsRef rule)."""
        tops = {a[i].top for a in self.alts}
        if "litstr" in tops:
            return "litstr"
        if "slice" in tops:
            return "slice"
        return "other"

    def simple(self):
        return all(p.simple for a in self.alts for p in a)

    def expected_pat_debug(self):
        n = len(self.types)
        if n == 0 and (self.guard or len(self.alts) > 1):
            return None   # rendering of explicit `()` alternatives / guards is not pinned down
        if n == 0:
            return "()"
        parts = ["(" + ", ".join(self.r(p.rendered()) for p in a) + ")" for a in self.alts]
        s = " | ".join(parts)
        if self.guard:
            s += " if {guard}"
        return s


def gen_swap_case(rng: random.Random) -> Case:
    """Two alternatives that both match structurally but bind the guard's variable at different positions: a false
    guard on the first alternative must fall through to the second one."""
    extra = rng.choice([[], ["bool"], ["opt"]])
    types = ["i32", "i32"] + extra
    k1, k2 = rng.sample([0, 1, 2, 3, 7], 2)
    first = [p_bind("a"), p_wild() if rng.random() < 0.6 else gen_int(rng)]
    second = [p_wild() if rng.random() < 0.6 else gen_int(rng), p_bind("a")]
    for t in extra:
        first.append(GEN[t](rng))
        second.append(GEN[t](rng))
    form = rng.choice(["eq", "gt", "or"])
    if form == "eq":
        guard = (f"*a == {k1}", lambda b, k1=k1: b["a"] == k1)
    elif form == "gt":
        guard = (f"*a > {min(k1, 3)}", lambda b, k=min(k1, 3): b["a"] > k)
    else:
        guard = (f"*a == {k1} || *a == {k2}", lambda b, k1=k1, k2=k2: b["a"] in (k1, k2))
    return Case(types, [first, second], guard)


def gen_cmp_cross_case(rng: random.Random) -> Case:
    """eq!/ne! operands of the same type at *different* argument positions in the two alternatives (the hoisted
    operand locals of the alternatives must not get mixed up)."""
    t = rng.choice(list(CMP_TYPES))
    extra = rng.choice([[], ["bool"], ["str"]])
    types = [t, t] + extra
    first = [GEN[t](rng) if rng.random() < 0.5 else p_wild(), gen_cmp(rng, t)]
    second = [gen_cmp(rng, t), GEN[t](rng) if rng.random() < 0.5 else p_wild()]
    if rng.random() < 0.3:
        first[0] = gen_cmp(rng, t)
    for x in extra:
        first.append(GEN[x](rng))
        second.append(GEN[x](rng))
    return Case(types, [first, second], None)


def gen_or_guard_cmp_case(rng: random.Random) -> Case:
    """A guard with a top-level `||` (or a mixed `&&`/`||` chain) together with eq!/ne! operands in the same
    alternative: the guard and the comparisons are one conjunction, whatever order and grouping the macro emits."""
    t = rng.choice(list(CMP_TYPES))
    types = ["i32", t] + rng.choice([[], ["i32"], ["bool"]])
    k1, k2 = rng.sample([0, 1, 2, 3], 2)
    n_alts = 1 if rng.random() < 0.6 else 2
    alts = []
    for _ in range(n_alts):
        alt = [p_bind("a"), gen_cmp(rng, t)]
        for x in types[2:]:
            alt.append(GEN[x](rng) if rng.random() < 0.5 else p_wild())
        alts.append(alt)
    form = rng.choice(["or", "or3", "andor", "orand"])
    if form == "or":
        guard = (f"*a == {k1} || *a == {k2}", lambda b, k1=k1, k2=k2: b["a"] in (k1, k2))
    elif form == "or3":
        guard = (f"*a == {k1} || *a == {k2} || *a > 2", lambda b, k1=k1, k2=k2: b["a"] in (k1, k2) or b["a"] > 2)
    elif form == "andor":
        guard = (f"*a >= 0 && *a == {k1} || *a == {k2}",
                 lambda b, k1=k1, k2=k2: (b["a"] >= 0 and b["a"] == k1) or b["a"] == k2)
    else:
        guard = (f"*a == {k1} || *a >= 0 && *a == {k2}",
                 lambda b, k1=k1, k2=k2: b["a"] == k1 or (b["a"] >= 0 and b["a"] == k2))
    return Case(types, alts, guard)


def gen_hygiene_case(rng: random.Random) -> Case:
    """A binding and an eq!/ne! operand of the same type in one alternative, the binding named like an identifier the
    macro generates for *that* alternative (the closure parameter `a<k>` / binder `m<k>` of the compared position, the
    operand local `l<n>`): the comparison must still be made between argument k and the operand."""
    t = rng.choice(["i32", "i32", "opt", "enum"])
    types = [t, t] + rng.choice([[], [], ["i32"], ["bool"]])
    n_alts = 1 if rng.random() < 0.65 else 2
    alts = []
    k = rng.choice([0, 1])          # position of the comparison in the first alternative
    for alt_no in range(n_alts):
        kk = k if alt_no == 0 else rng.choice([0, 1])
        alt = [None, None]
        alt[kk] = gen_cmp(rng, t)
        alt[1 - kk] = p_bind("a")
        for x in types[2:]:
            alt.append(GEN[x](rng) if rng.random() < 0.5 else p_wild())
        alts.append(alt)
    guard = None
    if t == "i32" and rng.random() < 0.5:
        kq = rng.choice([0, 1, 2, 3])
        guard = rng.choice([(f"*a >= {kq}", lambda b, kq=kq: b["a"] >= kq),
                            (f"*a != {kq}", lambda b, kq=kq: b["a"] != kq)])
    c = Case(types, alts, guard)
    c.rename = {"a": rng.choice([f"a{k}", f"a{k}", f"m{k}", f"m{1 - k}", "l0", "l0", "l1", f"a{1 - k}"])}
    return c


def gen_case(rng: random.Random) -> Case:
    c = gen_case_plain(rng)
    # every fourth case that binds something writes the bindings with names the macro uses itself
    if c.rename is None and any(p.binds for a in c.alts for p in a) and rng.random() < 0.25:
        x, y = rng.choice(HOSTILE_NAMES)
        c.rename = {"a": x, "b": y}
    return c


def gen_case_plain(rng: random.Random) -> Case:
    r = rng.random()
    if r < 0.05:
        return gen_hygiene_case(rng)
    if r < 0.06:
        return gen_swap_case(rng)
    if r < 0.12:
        return gen_cmp_cross_case(rng)
    if r < 0.18:
        return gen_or_guard_cmp_case(rng)
    n = rng.choice([0, 1, 1, 2, 2, 2, 3, 3])
    types = [rng.choice(list(TYPES)) for _ in range(n)]
    if n == 0:
        # parameter-less methods: `matching!()`, or explicit `()` alternatives with a guard that binds nothing
        r0 = rng.random()
        if r0 < 0.4:
            return Case([], [[]])
        guard = rng.choice([("1 + 1 == 3", lambda b: False), ("2 > 1", lambda b: True),
                            ("std::hint::black_box(false)", lambda b: False),
                            ("std::hint::black_box(7) == 7", lambda b: True)])
        return Case([], [[]] if r0 < 0.8 else [[], []], guard)
    n_alts = 1 if rng.random() < 0.6 else 2
    guard = None
    bind_pos = None
    if rng.random() < 0.3 and "i32" in types:
        bind_pos = [i for i, t in enumerate(types) if t == "i32"]
        rng.shuffle(bind_pos)
        bind_pos = bind_pos[:rng.choice([1, 1, 2])]
    alts = []
    i32_positions = [i for i, t in enumerate(types) if t == "i32"]
    for alt_no in range(n_alts):
        alt = []
        # the same names may be bound at other (i32) positions in another alternative: then a false guard on the
        # first alternative must fall through to the second one
        if bind_pos and alt_no > 0 and len(i32_positions) > len(bind_pos) and rng.random() < 0.6:
            shuffled = list(i32_positions)
            rng.shuffle(shuffled)
            bind_pos = shuffled[:len(bind_pos)]
        for i, t in enumerate(types):
            if bind_pos and i in bind_pos:
                name = "ab"[bind_pos.index(i)]
                alt.append(p_bind(name) if rng.random() < 0.8 else gen_int(rng, allow_bind=name))
                if not alt[-1].binds:
                    alt[-1] = p_bind(name)
            elif t in CMP_TYPES and rng.random() < (0.45 if bind_pos else 0.15):
                alt.append(gen_cmp(rng, t))
            else:
                alt.append(GEN[t](rng))
        alts.append(alt)
    if bind_pos:
        names = ["ab"[k] for k in range(len(bind_pos))]
        form = rng.choice(["gt", "eq2", "or", "ne"]) if len(names) == 2 else rng.choice(["gt", "or", "lt"])
        if form == "gt":
            k = rng.choice([0, 1, 2])
            guard = (f"*a > {k}", lambda b, k=k: b["a"] > k)
        elif form == "lt":
            k = rng.choice([1, 2, 3])
            guard = (f"*a < {k}", lambda b, k=k: b["a"] < k)
        elif form == "eq2":
            guard = ("*a == *b", lambda b: b["a"] == b["b"])
        elif form == "ne":
            guard = ("*a != *b", lambda b: b["a"] != b["b"])
        else:
            k1, k2 = rng.sample([0, 1, 2, 3], 2)
            guard = (f"*a == {k1} || *a == {k2}", lambda b, k1=k1, k2=k2: b["a"] in (k1, k2))
    c = Case(types, alts, guard)
    # calibration: coercion kinds must agree per argument (a string literal in one alternative and a slice in
    # another cannot happen by typing; litstr/slice vs binding is fine)
    return c


def supported(c: Case):
    # calibration notes (pinned macro): more than two top-level alternatives do not parse ("Expected tuple")
    if len(c.alts) > 2:
        return "more than two top-level alternatives are rejected by the pinned macro"
    for i, t in enumerate(c.types):
        tops = {a[i].top for a in c.alts}
        # a Vec/String/Name argument matched with a non-literal, non-slice pattern needs no coercion: fine.
        # a `&str` / `&[i32]` argument with a binding or wildcard: fine.
        if t in ("string", "name") and "litstr" in tops and tops - {"litstr", "wild"}:
            return "mixed literal / non-literal string patterns over alternatives"
        if t == "vec" and "slice" in tops and tops - {"slice", "wild"}:
            return "mixed slice / non-slice patterns over alternatives"
    return None


def domain(c: Case):
    return list(itertools.product(*[TYPES[t].values for t in c.types]))


def render_case(c: Case, idx: int):
    n = len(c.types)
    tys = [TYPES[t] for t in c.types]
    params = ", ".join(f"a{i}: {ty.rust}" for i, ty in enumerate(tys))
    dom = domain(c)
    # value tables
    tables = []
    for i, ty in enumerate(tys):
        tables.append(f"    let d{i}: Vec<{ty.rust.replace('&str', '&str').replace('&[i32]', '&[i32]')}> = vec![{', '.join(ty.lit(v) for v in ty.values)}];")
    loops_open = "".join(f"    for v{i} in d{i}.iter() {{\n" for i in range(n))
    loops_close = "    }\n" * n
    args = ", ".join(f"v{i}.clone()" for i in range(n))
    # reference match
    scrut = []
    for i, t in enumerate(c.types):
        kind = c.arg_kind(i)
        if kind == "litstr":
            scrut.append(f"AsRef::<str>::as_ref(v{i})")
        elif kind == "slice":
            scrut.append(f"AsRef::<[i32]>::as_ref(v{i})")
        else:
            scrut.append(f"v{i}")
    arms = []
    for alt in c.alts:
        pats, guards = [], []
        for i, p in enumerate(alt):
            if p.cmp:
                pats.append("_")
                op = "==" if p.cmp[0] == "eq" else "!="
                guards.append(f"(v{i} {op} {p.cmp[1]})")
            else:
                pats.append(c.r(p.src))
        if c.guard:
            guards.insert(0, f"({c.guard_src()})")
        g = (" if " + " && ".join(guards)) if guards else ""
        pat = pats[0] if n == 1 else "(" + ", ".join(pats) + ")"
        arms.append(f"            {pat}{g} => true,")
    sc = scrut[0] if n == 1 else "(" + ", ".join(scrut) + ")"
    ref_match = f"match {sc} {{\n" + "\n".join(arms) + "\n            _ => false,\n        }" if n > 0 else \
        (c.guard_src() if c.guard else "true")
    m_src = c.matching_src()
    dbg = ", ".join(f'format!("{{:?}}", v{i})' for i in range(n))
    # where the pattern is declared: on one line, or (every third case) the way rustfmt lays out a long invocation -
    # `matching!(` on one line and the first sub-pattern on the next; messages name the line of the invocation
    if idx % 3 == 0 and n > 0:
        ordered_decl = (f"        let line = line!() + 2;\n"
                        f"        let ordered = Unimock::new(\n"
                        f"            M::m.next_call(matching!(\n"
                        f"                {m_src}\n"
                        f"            )).returns(1),\n"
                        f"        ).no_verify_in_drop();")
    else:
        ordered_decl = (f"        let (line, ordered) = (line!(), Unimock::new(M::m.next_call(matching!({m_src}))"
                        f".returns(1)).no_verify_in_drop());")
    # C19: the same pattern declared twice on a strict mock - the "no matching call patterns" report must attribute
    # every rejected position to the pattern that rejected it (`call pattern #P, input #I`)
    pair_decl = pair_call = ""
    if len(c.alts) == 1 and not c.guard and n > 0:
        pair_decl = (f"    let pair = Unimock::new((M::m.each_call(matching!({m_src})).returns(1), "
                     f"M::m.each_call(matching!({m_src})).returns(1))).no_verify_in_drop();")
        pair_call = (f"        if !r {{\n"
                     f"            if let Err(p) = std::panic::catch_unwind(std::panic::AssertUnwindSafe(|| pair.m({args}))) {{\n"
                     f"                ev({idx}, \"pair_msg\", &[panic_text(p)], &[]);\n"
                     f"            }}\n"
                     f"        }}")
    text = f"""// pattern case {idx}: {c.key()}
use super::support::*;
use super::prelude::*;
use unimock::*;

#[unimock(api=M, unmock_with=[real])]
pub trait Tr {{
    fn m(&self{', ' if params else ''}{params}) -> i32;
}}
fn real(_: &impl Tr{', ' if params else ''}{', '.join(f'_a{i}: {ty.rust}' for i, ty in enumerate(tys))}) -> i32 {{ 0 }}

#[allow(unreachable_patterns, unused_variables, clippy::all)]
pub fn run() {{
{chr(10).join(tables)}
    let mut bits_u = String::new();
    let mut bits_o = String::new();
    let mut bits_r = String::new();
    let unordered = Unimock::new_partial(M::m.each_call(matching!({m_src})).returns(1)).no_verify_in_drop();
{pair_decl}
{loops_open}
        let r: bool = {ref_match};
        bits_r.push(if r {{ '1' }} else {{ '0' }});
        let u = unordered.m({args});
        bits_u.push(if u == 1 {{ '1' }} else {{ '0' }});
{ordered_decl}
        let o = std::panic::catch_unwind(std::panic::AssertUnwindSafe(|| ordered.m({args})));
        match o {{
            Ok(v) => bits_o.push(if v == 1 {{ '1' }} else {{ 'x' }}),
            Err(p) => {{
                bits_o.push('0');
                ev({idx}, "reject_msg", &[panic_text(p), line.to_string(), {dbg}], &[]);
            }}
        }}
{pair_call}
{loops_close}
    ev({idx}, "bits", &[bits_u, bits_o, bits_r], &[]);
}}
"""
    expected_bits = "".join("1" if c.accepts(v) else "0" for v in dom)
    # per-argument evaluation of the single alternative for the mismatch report (C19)
    per_arg = None
    if len(c.alts) == 1 and not c.guard and n > 0:
        per_arg = []
        for vals in dom:
            rejected = [i for i, (p, v) in enumerate(zip(c.alts[0], vals)) if not p.ev(v, {})]
            per_arg.append(rejected)
    exp = {
        "idx": idx, "mode": "pattern", "case": json.loads(c.key()), "bits": expected_bits, "tuples": len(dom),
        "domain_debug": [[TYPES[t].debug(v) for t, v in zip(c.types, vals)] for vals in dom],
        # what the comparison actually looks at for string / slice literal patterns (the AsRef view of the argument)
        "coerced_debug": [[(json.dumps(v) if c.arg_kind(i) == "litstr" else TYPES[t].debug(v))
                           for i, (t, v) in enumerate(zip(c.types, vals))] for vals in dom],
        "pat_debug": c.expected_pat_debug() if c.simple() else None,
        "per_arg_rejections": per_arg,
        "wild_positions": [i for i, p in enumerate(c.alts[0]) if p.top == "wild"] if len(c.alts) == 1 else [],
        "file": f"src/s_{idx}.rs",
    }
    return text, exp


def check_bits(exp, events):
    """C06 verdict for one case: (violation or None, oracle_disagreement bool)."""
    bits = [e for e in events if e["k"] == "bits"]
    if any(e["k"] == "driver_panic" for e in events):
        return f"driver panicked: {[e['p'] for e in events if e['k'] == 'driver_panic']}", False
    if not bits:
        return "program produced no result for this pattern", False
    u, o, r = bits[0]["p"]
    p = exp["bits"]
    if r != p:
        return None, True
    if u != p:
        i = next(i for i in range(len(p)) if u[i] != p[i])
        return (f"unordered evaluation (diagnostics off) differs from the Rust match on argument tuple "
                f"{exp['domain_debug'][i]}: matching! {'accepts' if u[i] == '1' else 'rejects'}, match "
                f"{'accepts' if p[i] == '1' else 'rejects'}"), False
    if o != p:
        i = next(i for i in range(len(p)) if o[i] != p[i])
        return (f"ordered evaluation (diagnostics on) differs from the Rust match on argument tuple "
                f"{exp['domain_debug'][i]}: matching! gives {o[i]!r}, match {'accepts' if p[i] == '1' else 'rejects'}"), False
    return None, False


def check_messages(exp, events):
    """C19 verdict for one case: the mismatch messages of the ordered evaluation."""
    import re
    msgs = [e for e in events if e["k"] == "reject_msg"]
    n_args = len(exp["case"][0])
    rejected = [i for i, b in enumerate(exp["bits"]) if b == "0"]
    if len(msgs) != len(rejected):
        return None  # accept/reject differences are C06's business
    ansi = re.compile(r"\x1b\[[0-9;]*m")
    for k, e in zip(rejected, msgs):
        text = ansi.sub("", e["p"][0])
        line = e["p"][1]
        dbg = e["p"][2:]
        call = "Tr::m(" + ", ".join(dbg) + ")"
        if not text.startswith(call):
            return f"message does not start with the call rendered as {call!r}: {text[:200]!r}"
        if exp["domain_debug"][k] != dbg:
            return f"harness bug: Debug renderings {dbg} vs generator {exp['domain_debug'][k]}"
        loc = f"at {exp['file']}:{line}"
        if loc not in text:
            return f"message does not name the pattern's file:line ({loc}): {text[:300]!r}"
        if exp["pat_debug"] is not None:
            want = f"Tr::m{exp['pat_debug']} {loc}"
            if want not in text:
                return f"message does not name the pattern by its source text {want!r}: {text[:300]!r}"
        if exp["per_arg_rejections"] is not None:
            want_pos = exp["per_arg_rejections"][k]
            got_pos = sorted({int(m) for m in re.findall(r"input #(\d+)", text)})
            if got_pos != want_pos:
                return (f"mismatch report for call {call} lists positions {got_pos}, the sub-patterns rejecting the "
                        f"actual values are at {want_pos}: {text[:400]!r}")
            # each listed position carries the actual value
            report = text[len(call):]
            for pos in want_pos:
                # the value is shown as the argument's Debug, or as the Debug of its AsRef<str> view
                if dbg[pos] not in report and exp["coerced_debug"][k][pos] not in report:
                    return f"mismatch report lacks the actual value {dbg[pos]} of input #{pos}: {text[:400]!r}"
    # the pattern declared twice: every rejected position is attributed to pattern #0 and to pattern #1
    pair = [e for e in events if e["k"] == "pair_msg"]
    if exp["per_arg_rejections"] is not None and len(pair) == len(rejected):
        for k, e in zip(rejected, pair):
            text = ansi.sub("", e["p"][0])
            want = sorted((pno, pos) for pno in (0, 1) for pos in exp["per_arg_rejections"][k])
            got = sorted({(int(a), int(b)) for a, b in re.findall(r"call pattern #(\d+), input #(\d+)", text)})
            if want and got != want:
                return (f"two declarations of the pattern reject call {exp['domain_debug'][k]}: the report attributes "
                        f"(pattern, input) = {got}, the rejecting sub-patterns are {want}: {text[:500]!r}")
    return None
