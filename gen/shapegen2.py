"""Engine B, part 2: unmock (C16) and default-method delegation (C15) programs."""
import json
import random
from dataclasses import dataclass, field
from typing import List, Optional

from shapegen import KINDS, PROBE_FN, py_probe, value_of

# parameter kinds that keep these generators simple (values that can be copied around freely)
SIMPLE = ["u32", "string", "ref_u32", "ref_str", "ref_bytes", "nodbg", "ref_nodbg", "mut_u32", "mut_vec", "tuple",
          "opt_ref"]


def sig_of(kind, i):
    return KINDS[kind].sig.replace("{L}", "").replace("{i}", str(i))


# ------------------------------------------------------------------------------------------------
# C16: unmock_with


@dataclass
class UMethod:
    params: List[str]
    form: str            # "path" | "params" | "none"
    receiver: str = "ref"    # ref | mut | pin
    asyncness: str = "sync"  # sync | async_fn
    reenter: bool = False    # the real function calls `helper(x)` back on its dependency


@dataclass
class UShape:
    methods: List[UMethod]
    skipped_at: List[int] = field(default_factory=list)   # positions (in the fn list) of skipped associated fns
    api: str = "module"      # module | hidden
    depth: int = 0
    provided: bool = False   # the trait also has a provided method (with a `_` entry in unmock_with)

    def key(self):
        return json.dumps([[m.params, m.form, m.receiver, m.asyncness, m.reenter] for m in self.methods]
                          + [self.skipped_at, self.api, self.depth, self.provided])


def render_unmock(s: UShape, idx: int):
    """Trait with methods m0..mk (+ `helper`), real functions logging what they receive."""
    lines = []
    fn_list = []      # entries of the unmock_with list in trait order
    trait_items = []
    real_fns = []
    names = []
    pos = 0
    mi = 0
    total_fns = len(s.methods) + len(s.skipped_at) + 1   # + helper
    while mi < len(s.methods) or pos in s.skipped_at:
        if pos in s.skipped_at:
            trait_items.append(f"    fn version{pos}() -> u32 where Self: Sized {{ {pos} }}")
            fn_list.append("_")
            pos += 1
            continue
        m = s.methods[mi]
        name = f"m{mi}"
        names.append(name)
        kinds = [KINDS[p] for p in m.params]
        params = ", ".join(f"p{i}: {sig_of(p, i)}" for i, p in enumerate(m.params))
        recv = {"ref": "&self", "mut": "&mut self", "pin": "self: std::pin::Pin<&mut Self>", "owned": "self",
                "rc": "self: std::rc::Rc<Self>", "arc": "self: std::sync::Arc<Self>"}[m.receiver]
        asy = "async " if m.asyncness == "async_fn" else ""
        sized = " where Self: Sized" if m.receiver in ("owned", "rc", "arc") else ""
        trait_items.append(f"    {asy}fn {name}({recv}{', ' if params else ''}{params}) -> u32{sized};")
        # real function
        dep_ty = {"ref": "&(impl Tr + ?Sized)", "owned": "impl Tr", "rc": "std::rc::Rc<impl Tr>",
                  "arc": "std::sync::Arc<impl Tr>"}.get(m.receiver, "&mut impl Tr")
        order = list(range(len(m.params)))
        if m.form == "params":
            order = order[::-1]
        rparams = ", ".join(f"a{i}: {sig_of(m.params[i], i)}" for i in order)
        probes = ", ".join(f"{PROBE_FN[kinds[i].base]}({kinds[i].canon_a.replace('{i}', str(i))})" for i in range(len(kinds)))
        addrs = ", ".join(f"addr({kinds[i].canon_a.replace('{i}', str(i))})" for i in range(len(kinds)) if kinds[i].is_ref)
        muts = " ".join(kinds[i].mutate.replace("{i}", str(i)) for i in range(len(kinds)) if kinds[i].mutate)
        nested = ""
        if m.reenter:
            aw = ".await" if False else ""
            nested = f"let nested = dep.helper({10 + mi}); ev({idx}, \"nested_{name}\", &[nested.to_string()], &[]);"
        body = (f"ev({idx}, \"real_{name}\", &[{probes}], &[{addrs}]); {muts} {nested} {7000 + mi}")
        if m.form == "empty":
            # an explicit, empty parameter list: the real function wants neither the mock nor the arguments
            real_fns.append(f"{asy}fn real_{name}() -> u32 {{ ev({idx}, \"real_{name}\", &[], &[]); {7000 + mi} }}")
            fn_list.append(f"real_{name}()")
        elif m.form != "none":
            real_fns.append(f"{asy}fn real_{name}(dep: {dep_ty}{', ' if rparams else ''}{rparams}) -> u32 {{ {body} }}")
        if m.form == "empty":
            pass
        elif m.form == "path":
            fn_list.append(f"real_{name}")
        elif m.form == "params":
            exprs = ", ".join(["self"] + [f"p{i}" for i in order])
            fn_list.append(f"real_{name}({exprs})")
        else:
            fn_list.append("_")
        mi += 1
        pos += 1
    # helper: a plain mocked method the real functions call back into
    trait_items.append("    fn helper(&self, x: u32) -> u32;")
    fn_list.append("_")
    if s.provided:
        trait_items.append("    fn provided_extra(&self, x: u32) -> u32 { x + 1 }")
        fn_list.append("_")
    api = "api=M, " if s.api == "module" else ""
    text = [f"// unmock shape {idx}: {s.key()}", "use super::support::*;", "use unimock::*;", "",
            f"#[unimock({api}unmock_with=[{', '.join(fn_list)}])]", "pub trait Tr {"] + trait_items + ["}", ""] + real_fns

    drivers = []
    exp_calls = []
    for mi, m in enumerate(s.methods):
        name = f"m{mi}"
        kinds = [KINDS[p] for p in m.params]
        decls = " ".join(k.decl.replace("{i}", str(i)).replace("{v}", str(value_of(i))) for i, k in enumerate(kinds))
        args = ", ".join(k.arg.replace("{i}", str(i)) for i, k in enumerate(kinds))
        cp = ", ".join(f"{PROBE_FN[k.base]}({k.canon_c.replace('{i}', str(i))})" for i, k in enumerate(kinds))
        ca = ", ".join(f"addr({k.canon_c.replace('{i}', str(i))})" for i, k in enumerate(kinds) if k.is_ref)
        helper_clause = f"M::helper.next_call(matching!({10 + mi})).returns({500 + mi}u32).once()" if s.api == "module" else None
        for mode in (["partial", "strict_applies"] if s.api == "module" else ["partial"]):
            tag = f"{name}_{mode}"
            if mode == "partial":
                if m.reenter and s.api == "module":
                    mk = f"Unimock::new_partial({helper_clause})"
                elif m.reenter:
                    continue
                else:
                    mk = "Unimock::new_partial(())"
            else:
                clause = f"M::{name}.next_call(matching!({', '.join('_' for _ in kinds)})).applies_unmocked()"
                if m.reenter:
                    mk = f"Unimock::new(({clause}, {helper_clause}))"
                else:
                    mk = f"Unimock::new({clause})"
            call = f"u.{name}({args})" if m.receiver != "pin" else f"std::pin::Pin::new(&mut u).{name}({args})"
            if m.asyncness == "async_fn":
                call = f"block_on({call}).0"
            mut = "mut " if m.receiver in ("mut", "pin") else ""
            by_value = m.receiver in ("owned", "rc", "arc")
            wrap = {"rc": "let u = std::rc::Rc::new(u);", "arc": "let u = std::sync::Arc::new(u);"}.get(m.receiver, "")
            # a by-value receiver is consumed by the call: the mock is verified when the real function lets go of it
            verify = (f'ev({idx}, "verify_{tag}", &[String::from("ok")], &[]);' if by_value else
                      f'let v = std::panic::catch_unwind(std::panic::AssertUnwindSafe(move || drop(u))); '
                      f'ev({idx}, "verify_{tag}", &[match v {{ Ok(()) => String::from("ok"), Err(p) => panic_text(p) }}], &[]);')
            drivers.append(f"""
    {{
        {decls}
        let {mut}u = {mk};
        {wrap}
        ev({idx}, "begin_{tag}", &[{cp}], &[{ca}]);
        let r = std::panic::catch_unwind(std::panic::AssertUnwindSafe(|| {call}));
        match r {{
            Ok(v) => ev({idx}, "result_{tag}", &[v.to_string()], &[]),
            Err(p) => ev({idx}, "panic_{tag}", &[panic_text(p)], &[]),
        }}
        ev({idx}, "after_{tag}", &[{cp}], &[]);
        {verify}
    }}""")
            exp_calls.append({
                "tag": tag, "method": name, "form": m.form, "reenter": m.reenter,
                "caller": [py_probe(k, i) for i, k in enumerate(kinds)],
                "after": [py_probe(k, i, mutated=(m.form not in ("none", "empty"))) for i, k in enumerate(kinds)],
                "n_refs": sum(1 for k in kinds if k.is_ref),
                "result": str(7000 + mi), "helper": str(500 + mi),
            })
    text += ["", "pub fn run() {"] + drivers + ["}", ""]
    return "\n".join(text), {"idx": idx, "mode": "unmock", "shape": json.loads(s.key()), "calls": exp_calls}


def check_unmock(exp, events):
    by = {}
    for e in events:
        by.setdefault(e["k"], []).append(e)
    if "driver_panic" in by:
        return f"driver panicked: {by['driver_panic'][0]['p']}"
    for c in exp["calls"]:
        tag, name = c["tag"], c["method"]
        begin = by.get(f"begin_{tag}")
        if not begin:
            return f"{tag}: scenario did not run"
        # only the events between begin_<tag> and verify_<tag> belong to this scenario
        i0 = events.index(begin[0])
        i1 = next((i for i in range(i0, len(events)) if events[i]["k"] == f"verify_{tag}"), len(events) - 1)
        seg = events[i0:i1 + 1]
        kinds = [e["k"] for e in seg]
        real = [e for e in seg if e["k"] == f"real_{name}"]
        other_real = [e["k"] for e in seg if e["k"].startswith("real_") and e["k"] != f"real_{name}"]
        if c["form"] == "none":
            pan = [e for e in seg if e["k"] == f"panic_{tag}"]
            if not pan:
                return f"{tag}: no function registered for Tr::{name}, but the call did not panic (events {kinds})"
            if f"Tr::{name}" not in pan[0]["p"][0] or "unmock" not in pan[0]["p"][0]:
                return f"{tag}: panic does not name the method as not unmockable: {pan[0]['p'][0]!r}"
            if real or other_real:
                return f"{tag}: a real function ran although none is registered for {name}: {kinds}"
            continue
        if other_real:
            return f"{tag}: unmocking Tr::{name} invoked {other_real} (another method's function)"
        if len(real) != 1:
            pan = [e["p"][0] for e in seg if e["k"] == f"panic_{tag}"]
            return f"{tag}: registered function real_{name} ran {len(real)} times (panic: {pan})"
        if c["form"] != "empty":
            if real[0]["p"] != c["caller"]:
                return f"{tag}: real function received {real[0]['p']}, caller passed {c['caller']}"
            if real[0]["a"] != begin[0]["a"]:
                return f"{tag}: reference arguments are not the caller's objects"
        res = [e for e in seg if e["k"] == f"result_{tag}"]
        if not res:
            pan = [e["p"][0] for e in seg if e["k"] == f"panic_{tag}"]
            return f"{tag}: call panicked: {pan}"
        if res[0]["p"][0] != c["result"]:
            return f"{tag}: returned {res[0]['p'][0]}, the real function returned {c['result']}"
        after = [e for e in seg if e["k"] == f"after_{tag}"]
        if after[0]["p"] != c["after"]:
            return f"{tag}: caller's variables after the call {after[0]['p']}, expected {c['after']}"
        if c["reenter"]:
            nested = [e for e in seg if e["k"] == f"nested_{name}"]
            if not nested or nested[0]["p"][0] != c["helper"]:
                return f"{tag}: the call back into the mock returned {nested and nested[0]['p']}, expected {c['helper']}"
        ver = [e for e in seg if e["k"] == f"verify_{tag}"]
        if ver and ver[0]["p"][0] != "ok":
            return f"{tag}: verification failed although every clause was used: {ver[0]['p'][0]!r}"
    return None


def unmock_shapes(rng: random.Random, n):
    out, seen = [], set()
    tries = 0
    while len(out) < n and tries < n * 50:
        tries += 1
        k = rng.randint(1, 4)
        methods = []
        for _ in range(k):
            arity = rng.choice([0, 1, 2, 2, 3])
            methods.append(UMethod(
                params=[rng.choice(SIMPLE) for _ in range(arity)],
                form=rng.choice(["path", "path", "params", "none", "path", "empty"]),
                receiver=rng.choice(["ref", "ref", "ref", "mut", "pin", "ref", "owned", "rc", "arc"]),
                asyncness=rng.choice(["sync", "sync", "sync", "async_fn"]),
                reenter=rng.random() < 0.3,
            ))
        skipped = sorted(rng.sample(range(k + 1), rng.choice([0, 0, 1, 1, 2]) if k + 1 >= 2 else 0))
        # positions are in the final fn list: remap so that they interleave with methods
        s = UShape(methods, skipped_at=skipped, api=rng.choice(["module", "module", "hidden"]),
                   provided=rng.random() < 0.4)
        for m in s.methods:
            # a `&mut T<'_>` argument (hidden from the matcher as Impossible) must still reach the real function
            if m.params and rng.random() < 0.15:
                m.params[rng.randrange(len(m.params))] = "mut_wr"
                m.asyncness = "sync"
            if m.asyncness == "async_fn" and any(KINDS[p].name in ("mut_u32", "mut_vec") for p in m.params):
                m.asyncness = "sync"
            if m.form in ("none", "empty"):
                m.reenter = False
            if m.receiver in ("owned", "rc", "arc"):
                m.reenter = False
                m.asyncness = "sync"
                if m.form == "params":
                    m.form = "path"
            if m.receiver in ("mut", "pin"):
                m.reenter = False
            if m.receiver == "pin":
                m.asyncness = "sync"
        if s.key() in seen:
            continue
        seen.add(s.key())
        out.append(s)
    return out


# ------------------------------------------------------------------------------------------------
# C15: default-method delegation


@dataclass
class DShape:
    receiver: str              # ref | mut | owned | rc | arc | pin | box
    params: List[str]
    body_calls: List[int]      # which required methods (0..2) the body calls, in order
    route: str                 # "fallthrough" | "clause_next" | "clause_each"
    partial: bool
    sole_owner: bool = True    # Rc/Arc: is the handle the only one
    borrowed_first: bool = False  # a `&self` provided method is delegated before the main call
    direct_calls: int = 0      # direct calls of req0 mixed in
    unmet: bool = False        # an extra clause that is never used (by-value: verification must fail inside)
    nested: bool = False       # the answer of req0 itself calls a provided method on the mock it receives
    assoc_const: bool = False  # the body reads an associated const that has a default and is overridden in the attribute
    weak: bool = False         # Rc/Arc: a Weak handle is alive during the call (it is not an owner)
    prov_unmock: bool = False  # the provided method also has a registered real function (the default body still wins)
    consume: bool = False      # by-value receivers: the body ends by passing `self` on to a required method with the same receiver kind

    def key(self):
        return json.dumps([self.receiver, self.params, self.body_calls, self.route, self.partial, self.sole_owner,
                           self.borrowed_first, self.direct_calls, self.unmet, self.nested, self.assoc_const, self.weak,
                           self.consume, self.prov_unmock])


def d_supported(s: DShape):
    if s.receiver not in ("rc", "arc") and not s.sole_owner:
        return False
    if s.consume and s.receiver not in ("owned", "rc", "arc"):
        return False
    # an unmet expectation is only observable *inside* the call when the call consumes the only handle
    if s.unmet and not (s.receiver == "owned" or (s.receiver in ("rc", "arc") and s.sole_owner)):
        return False
    return True


def render_default(s: DShape, idx: int):
    kinds = [KINDS[p] for p in s.params]
    recv_sig = {"ref": "&self", "mut": "&mut self", "owned": "self", "box": "self: Box<Self>",
                "rc": "self: std::rc::Rc<Self>", "arc": "self: std::sync::Arc<Self>",
                "pin": "self: std::pin::Pin<&mut Self>"}[s.receiver]
    params = ", ".join(f"p{i}: {sig_of(p, i)}" for i, p in enumerate(s.params))
    # inside the trait's default body a generic parameter is only known by its bounds: probe it through Debug
    # (for the u16 it is instantiated with, that is the same text as pr_u16)
    probes = ", ".join((f"format!(\"{{:?}}\", p{i})" if k.generic in ("method", "impl") else
                        f"{PROBE_FN[k.base]}({k.canon_a.replace('{i}', str(i)).replace('a' + str(i), 'p' + str(i))})")
                       for i, k in enumerate(kinds))
    addrs = ", ".join(f"addr({k.canon_a.replace('{i}', str(i)).replace('a' + str(i), 'p' + str(i))})"
                      for i, k in enumerate(kinds) if k.is_ref)
    muts = " ".join(k.mutate.replace("{i}", str(i)).replace("a" + str(i), "p" + str(i)) for i, k in enumerate(kinds) if k.mutate)
    body = [f'        ev({idx}, "default_body", &[{probes}], &[{addrs}]);', f"        {muts}", "        let mut acc: u32 = 9;"]
    where = " where Self: Sized" if s.receiver in ("owned", "box", "rc", "arc") else ""
    for n, j in enumerate(s.body_calls):
        body.append(f"        acc = acc.wrapping_mul(31).wrapping_add(self.req{j}({20 + n}));")
    if s.consume:
        body.append("        acc = acc.wrapping_mul(31).wrapping_add(self.reqv(77));")
    if s.assoc_const:
        body.append("        acc = acc.wrapping_add(Self::K);")
    body.append("        acc")
    reqv_item = f"    fn reqv({recv_sig}, x: u32) -> u32{where};\n" if s.consume else ""
    # a type-generic provided method (own type parameter / impl Trait argument): only reached by fall-through
    gens = [f"T{i}: std::fmt::Debug + Clone + Send + Sync + 'static" for i, k in enumerate(kinds) if k.generic == "method"]
    prov_gen = f"<{', '.join(gens)}>" if gens else ""
    const_attr = ", const K: u32 = 15;" if s.assoc_const else ""
    const_item = "    const K: u32 = 5;\n" if s.assoc_const else ""
    unmock_attr, real_fn = "", ""
    if s.prov_unmock:
        entries = ["_"] * (5 if s.consume else 4) + [f"real_prov"] + ["_", "_"]
        unmock_attr = f", unmock_with=[{', '.join(entries)}]"
        dep_ty = "&(impl Tr + ?Sized)" if s.receiver == "ref" else "&mut impl Tr"
        rparams = ", ".join(f"_a{i}: {sig_of(p, i)}" for i, p in enumerate(s.params))
        real_fn = (f"fn real_prov(_dep: {dep_ty}{', ' if rparams else ''}{rparams}) -> u32 "
                   f"{{ ev({idx}, \"real_prov\", &[], &[]); 987654 }}\n")
    trait = real_fn + f"""#[unimock(api=M{unmock_attr}{const_attr})]
pub trait Tr {{
{const_item}    fn req0(&self, x: u32) -> u32;
    fn req1(&self, x: u32) -> u32;
    fn req2(&self, x: u32) -> u32;
    fn never(&self) -> u32;
{reqv_item}    fn prov{prov_gen}({recv_sig}{', ' if params else ''}{params}) -> u32{where} {{
{chr(10).join(body)}
    }}
    fn prov_ref(&self, x: u32) -> u32 {{
        self.req0(x) + 1
    }}
    fn prov_leaf(&self, x: u32) -> u32 {{
        x + 7
    }}
}}
"""
    # python evaluation of the body: reqj(x) answers x * 3 + j; with `nested`, req0 first sends x through the
    # provided method prov_leaf (x + 7) called on the mock instance its answer function receives
    def req(j, x):
        if j == 0 and s.nested:
            return (x + 7) * 3
        return x * 3 + j
    acc = 9
    req_counts = [0, 0, 0]
    ordered_seq = []
    for n, j in enumerate(s.body_calls):
        acc = (acc * 31 + req(j, 20 + n)) & 0xFFFFFFFF
        req_counts[j] += 1
    if s.consume:
        acc = (acc * 31 + 77 * 3 + 5) & 0xFFFFFFFF
    if s.assoc_const:
        acc = (acc + 15) & 0xFFFFFFFF
    if s.borrowed_first:
        req_counts[0] += 1
    req_counts[0] += s.direct_calls

    clauses = []
    ordered = s.route == "clause_next"
    if ordered:
        # the provided method's clause occupies the first slot, the required calls follow in body order
        pre = []
        if s.borrowed_first:
            pre.append("M::req0.next_call(matching!(77)).answers(&|_, x| { ev(IDX, \"req0\", &[x.to_string()], &[]); x * 3 })")
        for _ in range(s.direct_calls):
            pre.append("M::req0.next_call(matching!(55)).answers(&|_, x| { ev(IDX, \"req0\", &[x.to_string()], &[]); x * 3 })")
        clauses += pre
        clauses.append(f"M::prov.next_call(matching!({', '.join('_' for _ in kinds)})).applies_default_impl()")
        for n, j in enumerate(s.body_calls):
            clauses.append(f"M::req{j}.next_call(matching!({20 + n})).answers(&|_, x| {{ ev(IDX, \"req{j}\", &[x.to_string()], &[]); x * 3 + {j} }})")
        if s.consume:
            clauses.append("M::reqv.next_call(matching!(77)).answers(&|_, x| { ev(IDX, \"reqv\", &[x.to_string()], &[]); x * 3 + 5 })")
    else:
        if s.consume:
            clauses.append("M::reqv.each_call(matching!(_)).answers(&|_, x| { ev(IDX, \"reqv\", &[x.to_string()], &[]); x * 3 + 5 }).n_times(1)")
        for j in range(3):
            if req_counts[j] > 0:
                clauses.append(f"M::req{j}.each_call(matching!(_)).answers(&|_, x| {{ ev(IDX, \"req{j}\", &[x.to_string()], &[]); x * 3 + {j} }}).n_times({req_counts[j]})")
        if s.route == "clause_each":
            clauses.append(f"M::prov.each_call(matching!({', '.join('_' for _ in kinds)})).applies_default_impl().n_times(1)")
    if s.unmet:
        clauses.append("M::never.some_call(matching!()).returns(1u32)")
    clause_text = "(" + ", ".join(clauses) + ("," if len(clauses) == 1 else "") + ")" if clauses else "()"
    if len(clauses) == 1:
        clause_text = clauses[0]
    clause_text = clause_text.replace("IDX", str(idx))
    if s.nested:
        clause_text = clause_text.replace("x * 3 + 0 }", "u.prov_leaf(x) * 3 }").replace("x * 3 })", "u.prov_leaf(x) * 3 })")
        clause_text = clause_text.replace('.answers(&|_, x| { ev(%d, "req0"' % idx, '.answers(&|u, x| { ev(%d, "req0"' % idx)
    mk = f"Unimock::new_partial({clause_text})" if s.partial else f"Unimock::new({clause_text})"

    decls = " ".join(k.decl.replace("{i}", str(i)).replace("{v}", str(value_of(i))) for i, k in enumerate(kinds))
    args = ", ".join(k.arg.replace("{i}", str(i)) for i, k in enumerate(kinds))
    cp = ", ".join(f"{PROBE_FN[k.base]}({k.canon_c.replace('{i}', str(i))})" for i, k in enumerate(kinds))
    ca = ", ".join(f"addr({k.canon_c.replace('{i}', str(i))})" for i, k in enumerate(kinds) if k.is_ref)
    pre_calls = []
    if s.borrowed_first:
        pre_calls.append(f'let b = u.prov_ref(77); ev({idx}, "borrowed_first", &[b.to_string()], &[]);')
    for _ in range(s.direct_calls):
        pre_calls.append(f'let d = u.req0(55); ev({idx}, "direct", &[d.to_string()], &[]);')
    by_value = s.receiver in ("owned", "box", "rc", "arc")
    wrap = {"ref": "", "mut": "", "pin": "", "owned": "", "box": "let u = Box::new(u);",
            "rc": "let u = std::rc::Rc::new(u);" + ("" if s.sole_owner else " let second = u.clone();")
                  + (" let _weak = std::rc::Rc::downgrade(&u);" if s.weak else ""),
            "arc": "let u = std::sync::Arc::new(u);" + ("" if s.sole_owner else " let second = u.clone();")
                   + (" let _weak = std::sync::Arc::downgrade(&u);" if s.weak else "")}[s.receiver]
    recv_expr = {"pin": "std::pin::Pin::new(&mut u)"}.get(s.receiver, "u")
    mut = "mut " if s.receiver in ("mut", "pin") else ""
    if by_value:
        finish = ("" if s.sole_owner else f'let v = std::panic::catch_unwind(std::panic::AssertUnwindSafe(move || drop(second))); ev({idx}, "verify", &[match v {{ Ok(()) => String::from("ok"), Err(p) => panic_text(p) }}], &[]);') + f' ev({idx}, "end", &[], &[]);'
        call_and_after = f"""
        let r = std::panic::catch_unwind(std::panic::AssertUnwindSafe(|| {recv_expr}.prov({args})));
        match r {{
            Ok(v) => ev({idx}, "result", &[v.to_string()], &[]),
            Err(p) => ev({idx}, "panic", &[panic_text(p)], &[]),
        }}
        ev({idx}, "caller_after", &[{cp}], &[]);
        {finish}"""
    else:
        call_and_after = f"""
        let r = std::panic::catch_unwind(std::panic::AssertUnwindSafe(|| {recv_expr}.prov({args})));
        match r {{
            Ok(v) => ev({idx}, "result", &[v.to_string()], &[]),
            Err(p) => ev({idx}, "panic", &[panic_text(p)], &[]),
        }}
        ev({idx}, "caller_after", &[{cp}], &[]);
        let v = std::panic::catch_unwind(std::panic::AssertUnwindSafe(move || drop(u)));
        ev({idx}, "verify", &[match v {{ Ok(()) => String::from("ok"), Err(p) => panic_text(p) }}], &[]);"""
    text = f"""// default-delegation shape {idx}: {s.key()}
use super::support::*;
use unimock::*;

{trait}
pub fn run() {{
    {{
        {decls}
        let {mut}u = {mk};
        {' '.join(pre_calls)}
        {wrap}
        ev({idx}, "caller_before", &[{cp}], &[{ca}]);
        {call_and_after}
    }}
}}
"""
    exp = {
        "idx": idx, "mode": "default", "shape": json.loads(s.key()),
        "caller": [py_probe(k, i) for i, k in enumerate(kinds)],
        "after": [py_probe(k, i, mutated=True) for i, k in enumerate(kinds)],
        "result": str(acc),
        "req_args": [[f"req{j}", str(20 + n)] for n, j in enumerate(s.body_calls)] + ([["reqv", "77"]] if s.consume else []),
        "by_value": by_value, "unmet": s.unmet,
        "borrowed_first": s.borrowed_first, "direct_calls": s.direct_calls,
        "sole_owner": s.sole_owner, "receiver": s.receiver, "nested": s.nested,
    }
    return text, exp


def check_default(exp, events):
    kinds = [e["k"] for e in events]
    by = {}
    for e in events:
        by.setdefault(e["k"], []).append(e)
    if "driver_panic" in by:
        return f"driver panicked: {by['driver_panic'][0]['p']}"
    if exp["borrowed_first"]:
        if "borrowed_first" not in by or by["borrowed_first"][0]["p"][0] != str((84 if exp.get("nested") else 77) * 3 + 1):
            return f"the preliminary borrowed delegation returned {by.get('borrowed_first')}"
    if "caller_before" not in by:
        return f"scenario did not reach the main call (events {kinds})"
    i0 = kinds.index("caller_before")
    seg = events[i0:]
    skinds = [e["k"] for e in seg]
    if exp["unmet"] and exp["by_value"]:
        # the travelling original is verified when it is finally dropped inside the call: unmet -> that panics
        pan = by.get("panic")
        if not pan:
            return ("by-value receiver with an unmet expectation: the call returned without the verification "
                    f"failure that dropping the original must raise (events {kinds})")
        if "never" not in pan[0]["p"][0]:
            return f"by-value receiver with an unmet expectation: unexpected panic {pan[0]['p'][0]!r}"
        if skinds.count("default_body") != 1:
            return f"default body ran {skinds.count('default_body')} times"
        return None
    if "panic" in by:
        return f"provided method panicked instead of running the trait's body: {by['panic'][0]['p'][0]!r}"
    if skinds.count("default_body") != 1:
        return f"default body ran {skinds.count('default_body')} times (events {skinds})"
    body = by["default_body"][0]
    if body["p"] != exp["caller"]:
        return f"default body received {body['p']}, caller passed {exp['caller']}"
    if body["a"] != by["caller_before"][0]["a"]:
        return "reference arguments seen by the default body are not the caller's objects"
    reqs = [[e["k"], e["p"][0]] for e in seg if e["k"].startswith("req")]
    if reqs != exp["req_args"]:
        return f"required methods evaluated by the mock: {reqs}, the body calls {exp['req_args']}"
    if by["result"][0]["p"][0] != exp["result"]:
        return f"provided method returned {by['result'][0]['p'][0]}, the body computes {exp['result']}"
    if by["caller_after"][0]["p"] != exp["after"]:
        return f"caller's variables after the call {by['caller_after'][0]['p']}, expected {exp['after']}"
    if "verify" in by:
        if by["verify"][0]["p"][0] != "ok":
            return ("verification failed although delegated and direct calls together meet every count "
                    f"(counts not shared?): {by['verify'][0]['p'][0]!r}")
    return None


def default_shapes(rng: random.Random, n):
    out, seen = [], set()
    tries = 0
    # calibration: `self: Box<Self>` provided methods are not accepted by the pinned macro
    # (no DelegateToDefaultImpl for Box<Unimock>)
    receivers = ["ref", "mut", "owned", "rc", "arc", "pin"]
    while len(out) < n and tries < n * 60:
        tries += 1
        r = receivers[len(out) % len(receivers)] if rng.random() < 0.7 else rng.choice(receivers)
        arity = rng.choice([0, 1, 1, 2, 3])
        s = DShape(
            receiver=r,
            params=[rng.choice(SIMPLE) for _ in range(arity)],
            body_calls=[rng.randint(0, 2) for _ in range(rng.choice([0, 1, 2, 3, 3]))],
            route=rng.choice(["fallthrough", "fallthrough", "clause_next", "clause_each"]),
            partial=rng.random() < 0.4,
            sole_owner=rng.random() < 0.5,
            borrowed_first=rng.random() < 0.35,
            direct_calls=rng.choice([0, 0, 1, 2]),
            unmet=rng.random() < 0.15,
            nested=rng.random() < 0.3,
            assoc_const=rng.random() < 0.3,
        )
        if s.receiver not in ("rc", "arc"):
            s.sole_owner = True
        else:
            s.weak = rng.random() < 0.4
        s.consume = s.receiver in ("owned", "rc", "arc") and rng.random() < 0.4
        if s.route == "fallthrough" and rng.random() < 0.3:
            s.params = s.params + [rng.choice(["gen_method", "gen_impl"])]
        elif s.receiver in ("ref", "mut", "pin") and rng.random() < 0.4:
            s.prov_unmock = True
        if not d_supported(s):
            s.unmet = False
        if s.route == "clause_next" and s.direct_calls and not s.borrowed_first:
            pass
        if s.key() in seen:
            continue
        seen.add(s.key())
        out.append(s)
    return out
