#!/usr/bin/env python3
"""One-off calibration: which composite return types does the pinned #[unimock] accept? Writes gen/accepted/returns.json."""
import json, os, random, sys
sys.path.insert(0, '/verif/gen'); sys.path.insert(0, '/verif/lib')
import retgen, shapegen as sg
from vlib import common
rng = random.Random(20260926)
cands = retgen.systematic_types()
seen = {json.dumps(t) for t in cands}
for t in retgen.candidate_types(rng, int(sys.argv[1]) if len(sys.argv) > 1 else 700):
    if json.dumps(t) not in seen:
        seen.add(json.dumps(t)); cands.append(t)
mods = []
for i, t in enumerate(cands):
    c = retgen.Counter()
    v = retgen.gen_value(t, rng, c, force="first")
    text, _ = retgen.render(t, v, "each", i)
    # also a single-use clause in the same module so both conversions must exist
    text = text.replace("pub fn run() {", "pub fn run() {\n    let _u2 = Unimock::new(M::m.some_call(matching!()).returns(%s)).no_verify_in_drop();" % retgen.val_cfg(t, v))
    mods.append((f"s_{i}", text))
accepted, rejected = [], {}
env = common.base_env()
for k in range(0, len(mods), 60):
    chunk = mods[k:k+60]
    d = f"/verif/out/calib_returns/crate_{k}"
    sg.write_crate(d, f"calib_{k}", chunk)
    ok, errors, exe, tail = sg.build_crate(d, "/verif/target/shapegen/slot_0", env)
    bad = {int(f[2:-3]): m for f, m in errors.items() if f.startswith("s_")}
    if not ok and not bad:
        print("fatal", tail[-800:]); sys.exit(1)
    for name, _ in chunk:
        i = int(name[2:])
        if i in bad:
            rejected[json.dumps(cands[i])] = bad[i][:2]
        else:
            accepted.append(cands[i])
json.dump(accepted, open('/verif/gen/accepted/returns.json', 'w'))
json.dump(rejected, open('/verif/gen/accepted/returns_rejected.json', 'w'), indent=1)
print(len(accepted), "accepted,", len(rejected), "rejected")
