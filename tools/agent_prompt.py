#!/usr/bin/env python3
"""Prints the prompt given to a fresh sub-agent for seeding a property-breaking change (property text only)."""
import json, sys
pid = sys.argv[1]
for l in open('/verif/properties.jsonl'):
    p = json.loads(l)
    if p['id'] == pid:
        break
wt = f"/tmp/wt_{pid}"
print(f"""You are helping to evaluate a test/verification effort for the Rust crate `unimock` (a trait-mocking library: a proc macro `#[unimock]` generates MockFn impls, a runtime matches call patterns, counts calls, enforces ordering and verifies on drop). You have your own scratch git worktree of the repository at {wt} (detached HEAD; the proc-macro crate is in {wt}/unimock_macros). Work ONLY inside {wt}. Never read or touch /repo or /verif (the answer must be independent of anything there). The machine is offline: always pass --offline to cargo and set CARGO_NET_OFFLINE=true; a Cargo.lock is already in the worktree. Build output must stay inside {wt}/target.

The library is supposed to satisfy this semantic property:

  Title: {p['title']}
  Statement: {p['statement']}
  Quantified over: {p['quantifier']['text']}
  Why the existing tests cannot settle it: {p['why_tests_cant']}

TASK: produce TWO different, independent, realistic code changes (call them A and B) to the library sources ({wt}/src/** or {wt}/unimock_macros/src/**) such that each one, applied alone:
  1. still compiles (all default features; also `--features mock-core,mock-std,mock-tokio-1,mock-futures-io-0-3,mock-embedded-hal-1,fragile` if you touch something feature-gated),
  2. still passes the complete existing test suite, unedited: `cd {wt} && CARGO_NET_OFFLINE=true cargo test --workspace --no-fail-fast --offline` (127 tests pass on the unmodified tree; they must all still pass),
  3. BREAKS the property above in a way that needs something specific to manifest — e.g. a particular interleaving, a panic/fault at a particular point, a multi-step sequence of operations, an unusual input/shape/count, or two cooperating sites that each look fine alone — NOT something that ordinary simple use would expose at once. Think of the kind of subtle bug a maintainer could plausibly introduce in a refactoring (off-by-one at a boundary, a check moved two lines, a wrong index for one arity, a lock released too early, load+store instead of fetch_add, a condition that is only wrong for one combination...). Do not add dead giveaways such as special-casing magic values.
  4. comes with a demonstration: a small NEW integration test file (e.g. {wt}/tests/seeded_demo_a.rs and seeded_demo_b.rs; new test targets, do not edit existing test files) that FAILS with the change applied and PASSES on the unmodified tree. Run it both ways and record the output. If a demonstration needs threads/timing, make it as deterministic as you can (barriers, many repetitions) and say how often it fails.

Do not modify {wt}/src/verif.rs nor any line guarded by `cfg(unimock_verif)` (that is instrumentation, not library behaviour), and do not change public API signatures.

DELIVERABLES (create the directory {wt}/SEEDED):
  - {wt}/SEEDED/A.diff and {wt}/SEEDED/B.diff : `git diff` of the library sources only (no demo files), each applying cleanly with `git apply` to a pristine checkout of HEAD,
  - {wt}/SEEDED/demo_a.rs and {wt}/SEEDED/demo_b.rs : the demonstration test files,
  - {wt}/SEEDED/README.md : for A and B: which part of the property is broken, what exactly is needed for it to manifest, the commands you ran (test suite with the change, demo with and without the change) and their outcomes (pass/fail counts).
Finally restore the worktree sources to pristine HEAD (`git checkout -- .`), leaving only SEEDED/ and the demo files untracked. Reply with a short summary of A and B (what, where, what is needed to manifest) and whether all four conditions were verified for each.""")
