#!/bin/bash
# usage: kill_some.sh <id>...   like kill_matrix.sh but only for the given seeded ids (appends to KILL_MATRIX.md)
cd /verif
out=seeded/KILL_MATRIX.md
for id in "$@"; do
  prop=${id%-*}
  extra=$(grep "^$id " tools/kill_extra.txt 2>/dev/null | cut -d' ' -f2-)
  for c in $prop $extra; do
    line=$(./tools/run_against_seeded.sh $id $c 2>&1 | tail -1)
    rc=$(echo "$line" | sed -n 's/.*exit=\([0-9]*\).*/\1/p')
    first=$(echo "$line" | sed 's/^[^ ]* [^ ]* exit=[0-9]* //' | cut -c1-110)
    echo "| $id | $c | $rc | $first |" >> $out
    echo "$id $c exit=$rc"
    python3 - "$id" "$c" "$rc" <<'PY'
import json,sys
i,c,rc=sys.argv[1:4]
p=f"/verif/seeded/{i}/meta.json"; d=json.load(open(p))
d.setdefault("detected_by",{})[c]={"quick_check_exit":int(rc) if rc else None,"detected":rc=="1"}
json.dump(d,open(p,"w"),indent=1)
PY
  done
done
git -C /repo status --short
