#!/bin/bash
# usage: run_against_seeded.sh <seeded dir name e.g. C07-A> <check ids...>
# Applies the patch to /repo, runs the quick checks, reverts /repo. Prints one line per check.
set -u
S=/verif/seeded/$1; shift
cd /repo || exit 2
if ! git diff --quiet; then echo "/repo has uncommitted changes"; exit 2; fi
git apply $S/patch.diff || exit 2
trap 'git -C /repo checkout -q -- .' EXIT
cd /verif
for c in "$@"; do
  out=$(./check $c --tier ${TIER:-quick} 2>&1); rc=$?
  echo "$(basename $S) $c exit=$rc $(echo "$out" | grep -E '^(VIOLATION|INCONCLUSIVE|HELD|KNOWN)' | head -1 | cut -c1-200)"
  if [ "${VERBOSE:-0}" = 1 ]; then echo "$out" | head -12 | cut -c1-600; fi
done
