#!/bin/bash
# usage: confirm_seeded.sh <PROP> <A|B>
# Confirms a seeded change in the sub-agent's scratch worktree /tmp/wt_<PROP>:
#   patch applies; existing suite passes with it; demo fails with it; demo passes without it.
# On success stores it under /verif/seeded/<PROP>-<A|B>/.
set -u
P=$1; V=$2; WT=/tmp/wt_$P; S=$WT/SEEDED
v=$(echo $V | tr 'A-Z' 'a-z')
export CARGO_NET_OFFLINE=true RUST_BACKTRACE=0
cd $WT || exit 2
git checkout -q -- . ; rm -f tests/seeded_demo_*.rs
git apply --check $S/$V.diff || { echo "PATCH DOES NOT APPLY"; exit 1; }
git apply $S/$V.diff
# existing suite with the change (demo files absent)
suite=$(cargo test --workspace --no-fail-fast --offline 2>&1 | grep -E "^test result" | awk '{p+=$4; f+=$6} END {print p" passed "f" failed"}')
echo "suite with change: $suite"
cp $S/demo_$v.rs tests/seeded_demo_$v.rs
with=$(cargo test --offline --test seeded_demo_$v --features mock-core,mock-std,mock-tokio-1,mock-futures-io-0-3,mock-embedded-hal-1,fragile 2>&1 | grep -E "^test result|error(\[|:)" | head -3 | tr '\n' ' ')
echo "demo with change: $with"
git checkout -q -- .
without=$(cargo test --offline --test seeded_demo_$v --features mock-core,mock-std,mock-tokio-1,mock-futures-io-0-3,mock-embedded-hal-1,fragile 2>&1 | grep -E "^test result|error(\[|:)" | head -3 | tr '\n' ' ')
echo "demo without change: $without"
rm -f tests/seeded_demo_$v.rs
ok=1
[[ "$suite" == "127 passed 0 failed" ]] || ok=0
[[ "$with" == *"FAILED"* ]] || ok=0
[[ "$without" == *"test result: ok"* ]] || ok=0
if [ $ok = 1 ]; then
  D=/verif/seeded/$P-$V; mkdir -p $D
  cp $S/$V.diff $D/patch.diff; cp $S/demo_$v.rs $D/demo.rs
  python3 - "$P" "$V" "$suite" "$with" "$without" <<'PY'
import json,sys,os
P,V,suite,w,wo=sys.argv[1:6]
d=f"/verif/seeded/{P}-{V}"
meta={"property":P,"variant":V,"source":"independent sub-agent given only the property text and a scratch worktree",
 "confirmed":{"existing_suite_with_change":suite,"demo_with_change":w.strip(),"demo_without_change":wo.strip(),
  "commands":["git apply patch.diff","cargo test --workspace --no-fail-fast --offline","cargo test --offline --test seeded_demo_* --features <all mock features>"]},
 "needs_to_manifest":"see README excerpt","detected_by":{}}
readme=open(f"/tmp/wt_{P}/SEEDED/README.md").read()
meta["readme"]=readme[:6000]
json.dump(meta,open(d+"/meta.json","w"),indent=1)
PY
  echo "CONFIRMED -> $D"
else
  echo "NOT CONFIRMED"
fi
