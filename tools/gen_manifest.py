#!/usr/bin/env python3
"""Regenerates /verif/MANIFEST.json from the table below (keeps the manifest valid and consistent)."""
import json, os, subprocess
ROOT = os.path.dirname(os.path.dirname(os.path.abspath(__file__)))
props = [json.loads(l) for l in open(os.path.join(ROOT, "properties.jsonl"))]

B_NOTE = "Trusted: the generator's own expectations (gen/shapegen*.py) and the log comparison; grammar calibrated to what the pinned macro accepts (listed in gen/shapegen.py `supported` with the rustc reason); types from a fixed catalogue."
A_NOTE = ("Trusted: Spec-M (engines/harness/src/spec.rs, ~600 lines, no code shared with unimock) and the "
          "comparison code in check.rs; hooks H1/H2 forward/read only. Bounds: 11-method universe, argument "
          "domain {0,1,2}, <= 6 patterns per method, <= 4 response segments, counts 0..3, histories <= 24 "
          "operations, tuple arity 2..16 and depth <= 4.")

CHECKS = {
 "C01": dict(engine="dynmock", technique="runtime monitoring: randomized differential testing of the real mock against an executable specification, with counter snapshots (hook H2)",
   text="Held on every generated case: the value/answer id of each unordered call identifies the earliest declared accepting pattern and only its counter moves. Sampling, not proof; adequacy is measured by wrong-variant specs (last match, skip exhausted, count rejected) that the run must distinguish.", ref="5 C01", note=A_NOTE),
 "C02": dict(engine="dynmock", technique="runtime monitoring: randomized differential testing against Spec-M chain arithmetic",
   text="The segment id carried by each result is compared with the chain arithmetic of Spec-M for all response kinds, quantifier chains up to 4 segments with counts 0..3, beyond the end of the chain; single-use values must refuse the second request.", ref="5 C02", note=A_NOTE + " Overflow of an exact chain with a repeatable last response is a don't-care point."),
 "C03": dict(engine="dynmock", technique="runtime monitoring: verification text/ExitCode parsed and compared with Spec-M on boundary-steered histories",
   text="Verification outcome (drop, verify(), report()) compared as a multiset of expectation lines with Spec-M, on histories steered to one below / at / one above every bound; both directions of the iff.", ref="5 C03", note=A_NOTE),
 "C04": dict(engine="dynmock", technique="runtime monitoring: randomized differential testing of ordered sequences against Spec-M, global index via hook H2",
   text="Every call to an ordered method is judged against the slot arithmetic of Spec-M (accept/reject kind, response, global index); histories follow the expected sequence and deviate at random points.", ref="5 C04", note=A_NOTE),
 "C05": dict(engine="shapegen", technique="runtime monitoring of generated programs: caller, input matcher and answer function log probes and addresses of every argument; generator-side expectation",
   text="For every generated trait shape (receiver x arity 0-5 x 20 parameter kinds (incl. method generics with and without Send bounds, impl Trait with and without a Future bound; parameter names drawn from the generated impl's own identifiers) x 9 return kinds x sync/async forms x api forms) the values and addresses seen by the matcher and the answer function must equal the caller's, position by position; the result must be the answer's; &mut mutations must be visible; async methods evaluate once per await and not at all when dropped unpolled.", ref="5 C05", note=B_NOTE),
 "C06": dict(engine="shapegen", technique="translation validation by execution: every generated matching! invocation is evaluated on its whole finite argument domain in both evaluation modes and compared with the generator's evaluation of the pattern and a rustc-compiled match",
   text="For each generated pattern (literals, ranges, bindings, @, or-patterns, tuple/struct/enum/Option/slice patterns, string literals against &str/String/newtype, eq!/ne!, two alternatives, guards incl. ||, argument-level or-patterns of struct/enum/Option cases, open-start and exclusive ranges, binding names drawn from the macro's own identifiers a<i>/m<i>/l<n>) the accept/reject decision on every tuple of the domain, with diagnostics off (unordered) and on (ordered), must equal the independent evaluation. A hand-shaped Rust match compiled next to it cross-checks the generator's evaluator; disagreement between the two oracles is inconclusive.", ref="5 C06", note=B_NOTE + " Calibration: at most two top-level alternatives (three or more do not parse in the pinned macro)."),
 "C07": dict(engine="dynmock", technique="runtime monitoring: decision-table sweep (strict/partial x unmentioned/unmatched/matched x default body/real fn) judged by Spec-M with callback event logs",
   text="Outcome, callback log (which real function / default body ran, with which arguments) and counters compared with Spec-M for every fall-through situation, incl. hand-written partial-by-default MockFns (hook H4).", ref="5 C07", note=A_NOTE),
 "C08": dict(engine="dynmock", technique="runtime monitoring: fault injection (user panics in matcher/answer/real/default callbacks) and mock-induced panics on clones/threads; verification text must contain every recorded error",
   text="Every observed mock panic message must be contained in the original's verification text and in the shared error list (hook H2); injected user panics must not be recorded. std and no_std+spin builds.", ref="5 C08", note=A_NOTE + " Concurrent panics are covered by the sched engine (C10)."),
 "C09": dict(engine="dynmock", technique="runtime monitoring: random lifecycle event sequences judged by a lifecycle automaton",
   text="Each lifecycle operation (clone, drop, verify, report, no_verify_in_drop, move to thread, make_ref, verify on clone) is compared with the lifecycle automaton of Spec-M: silent / which panic / which ExitCode.", ref="5 C09", note=A_NOTE),
 "C14": dict(engine="dynmock", technique="runtime monitoring: clause trees through the real tuple impls (every arity 2..16 forced in turn), inconsistent setups injected at random positions",
   text="Pattern order and slot ranges after construction (hook H2) and the accepted call sequence must equal the depth-first leaf order; mixed-mode / empty-stub / unproducible-return setups must panic in the constructor. A stage of generated programs with composite return types, built against the no_std configuration without a lock, checks that exactly the single-use values with an owned part are refused at construction.", ref="5 C14", note=A_NOTE + " The compile-time half (type-state) is sampled by the compile probe when present."),
 "C10": dict(engine="sched", technique="runtime monitoring: controlled scheduler over instrumented atomics/locks (hook H3), linearizability checking of recorded histories against Spec-M, 16-thread stress with conservation laws, TSan/Miri in the thorough tier",
   text="Every schedule of small cases (<= 4 calls, <= 3 threads) is enumerated depth-first, larger ones sampled (random, PCT); each history recorded at the client boundary must be linearizable w.r.t. Spec-M with matching final counters and verification text. Stress runs are judged by conservation (each chain position / ordered slot handed out exactly once).", ref="5 C10", note="Sequentially consistent interleavings at hook granularity only; Spec-M trusted as in engine A; scheduler in engines/harness/src/sched.rs."),
 "C11": dict(engine="crashbox", technique="runtime monitoring by fault injection: every (crash point x instance topology x met/unmet) scenario runs in a child process whose exit status and panic reports are the observed events; plus caught-user-panic histories judged by Spec-M",
   text="All expressible combinations of 19 crash points and 16 topologies (842 scenarios, incl. re-runs with an unwritable stderr) are run in child processes: the child must exit 101 (not die by SIGABRT), report the injected panic first and report no second panic. Histories with user panics injected into matcher/answer/real/default callbacks and caught are then continued and judged by Spec-M (mock usable, verification reflects matched calls).", ref="5 C11", note="std builds only. Output of the default panic hook is parsed. The table is finite and fully run; histories of the second stage are sampled."),
 "C12": dict(engine="sched", technique="runtime monitoring: drop/clone registry on instrumented value types, conservation checks over controlled schedules (hook H3 lock sites) and 8-thread stress; Miri/TSan/valgrind in the thorough tier",
   text="For 13 return shapes (plain, Option, and Deep Result/tuple/Option/Poll mixes with owned leaves) the registry must show: a single-use value reaches at most one caller under every enumerated/sampled schedule, every other request is refused by a mock panic, delivered values are alive, repeatable values are clones of the intact stored original, every constructed value is dropped exactly once.", ref="5 C12", note="The compile-time half (builder refuses to quantify non-Clone values) is sampled by the compile probe when present, not monitored at run time. Registry in engines/harness/src/toks.rs is trusted."),
 "C13": dict(engine="sched", technique="runtime monitoring: every live lent reference re-validated (address, identity, checksum, distinctness, not dropped) after every step of random lending sequences; drop-order checks over the registry; controlled schedules at the value-chain insertion site, stress, Miri/TSan/valgrind in the thorough tier",
   text="Random phases of make_ref / borrowed returns / delegation-helper lending / make_mut on an original and a clone (instances finally dropped normally or while their thread unwinds), and 2-8 threads lending from one shared instance; all references are re-checked after each step and the registry must show values dropped exactly once and never before their owner (only make_mut releases).", ref="5 C13", note="unimock has no unsafe code; memory-level validity is sampled by Miri/valgrind in the thorough tier. Registry trusted."),
 "C15": dict(engine="shapegen", technique="runtime monitoring of generated programs (default bodies log what they receive; required-method answers log their arguments; body evaluated independently by the generator) plus Spec-M histories (dynmock)",
   text="Generated traits with a provided method on six receiver kinds whose body calls 0-3 required methods; reached by fall-through (strict/partial) or applies_default_impl() (ordered and counted), after an earlier borrowed delegation and mixed with direct calls; result, argument logs, shared counts/slots and the moment of verification for by-value receivers are checked (Rc/Arc also with a live Weak handle). A differential stage drives provided methods of a user trait that format self through Display/Debug supertraits on a plain struct and on the mock.", ref="5 C15", note=B_NOTE + " `self: Box<Self>` provided methods are rejected by the pinned macro and are out of scope."),
 "C16": dict(engine="shapegen", technique="runtime monitoring of generated programs (real functions log arguments, addresses and nested results) plus Spec-M histories (dynmock)",
   text="Generated traits with 1-4 methods and unmock_with lists mixing path / path(params..) / _ and entries for skipped associated functions; every method is unmocked via an empty partial mock and via applies_unmocked(); exactly one invocation of the right function with the caller's arguments, result unchanged, calls back into the mock counted there, `_` panics naming the method.", ref="5 C16", note=B_NOTE),
 "C17": dict(engine="shapegen", technique="runtime monitoring of generated programs: Debug rendering and leaf addresses of every returned value compared with the generator's rendering of the configured value, over a calibrated set of accepted return types",
   text="273 accepted return types over Option/Result/Vec/Poll/1-4-tuples x owned and borrowed leaves (depth <= 3); every variant, 0-4 elements, distinct leaves; four configuration paths. Returned structure must equal the configured one, borrowed leaves keep their addresses over repeated calls, a further request is refused exactly when an owned leaf was configured through a single-use path. The forced cases are judged a second time in the no_std + spin-lock build. Values with empty string / byte-slice leaves are forced.", ref="5 C17", note=B_NOTE + " Accepted types calibrated once: gen/accepted/returns.json."),
 "C18": dict(engine="dynmock", technique="runtime monitoring: metamorphic testing (run-against-run comparison of the real code, no model)",
   text="Four relations between runs of the real code: clause permutation, routing over clones/threads (optionally with derived mocks parked in instances' own value chains), a second independent mock with interleaved foreign calls, swapped generic instantiations. Any difference in a call outcome or the verification line multiset is a violation.", ref="5 C18", note="No specification involved; trusted: the transformation code in meta.rs. std build only (the documented no_std difference makes routing over clones observable there)."),
 "C19": dict(engine="shapegen", technique="runtime monitoring of generated programs and Spec-M histories: panic texts parsed and compared with rustc's own Debug renderings computed at the call site, captured file:line and the generator's per-argument evaluation",
   text="(a) every generated method shape is called on mocks that must fail in three ways; the text must start with Trait::method(Debug of each argument, ? for non-Debug). (b) every rejected tuple of every generated matching! pattern: pattern named by source text and file:line (single-line and multi-line invocations); for guard-free single-alternative patterns the listed input positions must be exactly the rejecting ones, each with its value; the same pattern declared twice on a strict mock must attribute every rejected position to both call patterns (#0 and #1). (c) dynmock: every mock-induced panic kind names its method and pattern.", ref="5 C19", note=B_NOTE + " Known finding F4 (Impossible slot) is listed in known_findings.json."),
 "C20": dict(engine="mirrors", technique="runtime monitoring by differential testing: a plain struct and a Unimock replay the same random script through upstream provided methods; results, buffers and the logged required-method call sequences are compared",
   text="16 families (std io Write/Read/BufRead/Seek, Hasher, Display/Debug directly and as supertraits of a user trait, embedded-hal delay/digital/i2c/spi/pwm, tokio and futures poll traits; Write and DelayNs additionally with the script turned into a chain of ordered next_call patterns and then() series, mixed with an exactly-counted unordered pattern, or into an unordered series with an open tail whose report() exit code is checked): 82 of the mirrored methods are driven; scripts contain short reads/writes, Interrupted, errors, EOF and Pending; strict and partial mocks alternate. The method list is parsed from src/mock/*.rs so that undriven methods are reported.", ref="5 C20", note="Trusted: the plain reference structs in engines/harness/src/bin/mirrors.rs implement only the required methods."),
}

LEVEL = {p: "exploration" for p in CHECKS}
LEVEL["C06"] = "translation_validation"
LEVEL["C11"] = "fault_enumeration"

def main():
    checks = []
    for p in props:
        pid = p["id"]
        if pid not in CHECKS: continue
        c = CHECKS[pid]
        checks.append({
            "property_id": pid,
            "quick_cmd": f"./check {pid} --tier quick",
            "thorough_cmd": f"./check {pid} --tier thorough",
            "evidence_file": f"/verif/evidence/{pid}.json",
            "replay_cmd_template": f"./check {pid} --replay {{path}}",
            "engine": c["engine"],
            "level_claimed": {"category": LEVEL[pid], "text": c["text"], "design_ref": "DESIGN.md section " + c["ref"]},
            "level_note": c["note"],
            "technique": c["technique"],
        })
    hooks = subprocess.run(["git", "-C", "/repo", "log", "--format=%h %s"], capture_output=True, text=True).stdout.splitlines()
    hook_commits = [l.split()[0] for l in hooks if l.split(" ", 1)[1].startswith("verif hooks")]
    m = {
        "version": 1,
        "setup_cmd": "./setup.sh",
        "hooks": {
            "guard": "--cfg unimock_verif",
            "enable": "RUSTFLAGS='--cfg unimock_verif' (set by ./check for every engine build; engines depend on unimock by path=/repo)",
            "baseline_off_cmd": "cd /repo && cargo test --workspace --no-fail-fast --offline",
            "source_commits": hook_commits[::-1],
            "add_only": True,
        },
        "engines": [
            {"name": "sched", "path": "engines/harness/src/bin/sched.rs", "serves_properties": ["C10", "C12", "C13", "C08", "C02"],
             "kind_free_text": "Engine C: token-passing controlled scheduler driven by hook H3, linearizability checker, real-thread stress, sanitizer stages"},
            {"name": "shapegen", "path": "gen/shapegen.py", "serves_properties": ["C05", "C15", "C16", "C06", "C17", "C19", "C20"],
             "kind_free_text": "Engine B: python generators write Rust programs (one module per shape/pattern) with logging drivers; expectations computed by the generator; built against /repo and run"},
            {"name": "mirrors", "path": "engines/harness/src/bin/mirrors.rs", "serves_properties": ["C20", "C15"],
             "kind_free_text": "differential script replay: plain struct vs Unimock through upstream provided methods"},
            {"name": "crashbox", "path": "engines/harness/src/bin/crashbox.rs", "serves_properties": ["C11"],
             "kind_free_text": "Engine D: crash-point x topology scenarios, each in an expendable child process"},
            {"name": "dynmock", "path": "engines/harness/src/bin/dynmock.rs", "serves_properties": ["C01","C02","C03","C04","C07","C08","C09","C14","C18"],
             "kind_free_text": "Engine A: random mocks interpreted through the real builder API, monitored against Spec-M after every operation"},
        ] + json.load(open(os.path.join(ROOT, "tools", "extra_engines.json"))) if os.path.exists(os.path.join(ROOT, "tools", "extra_engines.json")) else [],
        "checks": checks,
        "notes": "Every check is three-valued: exit 0 held, exit 1 VIOLATION, exit 2 INCONCLUSIVE (coverage gate unmet, build failure, watchdog). VERIF_SEED seeds every PRNG.",
        "not_applicable": [{"property_id": p["id"], "reason": "check under construction in this session (see DESIGN.md section 5); not claimed yet"} for p in props if p["id"] not in CHECKS],
    }
    json.dump(m, open(os.path.join(ROOT, "MANIFEST.json"), "w"), indent=1)
    print("checks:", [c["property_id"] for c in checks])

main()
