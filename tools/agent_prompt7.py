#!/usr/bin/env python3
"""Seventh-round prompt: agent_prompt6's list of used ideas plus the K/L ideas (read from seeded/*/meta.json); deliverables M and N."""
import json, re, subprocess, sys
pid = sys.argv[1]
p6 = subprocess.run([sys.executable, "/verif/tools/agent_prompt6.py", pid], capture_output=True, text=True).stdout
kl = []
try:
    r = json.load(open(f"/verif/seeded/{pid}-K/meta.json"))["readme"]
    for l in r.split("\n"):
        m = re.match(r"^#+\s*(?:Change\s+)?([KL])\s*[-–—:]+\s*(.*)$", l)
        if m and len(kl) < 2:
            kl.append(m.group(2).strip())
except Exception:
    pass
marker = "Name your deliverables K.diff / L.diff"
head, tail = p6.split(marker, 1)
n = head.count("\n  ")  # not used for numbering precision
head += "".join(f"  {11+i}. {u}\n" for i, u in enumerate(kl))
out = head + marker + tail
for a, b in [("call them K and L", "call them M and N"), ("SEEDED/K.diff", "SEEDED/M.diff"), ("SEEDED/L.diff", "SEEDED/N.diff"),
             ("SEEDED/demo_k.rs", "SEEDED/demo_m.rs"), ("SEEDED/demo_l.rs", "SEEDED/demo_n.rs"),
             ("seeded_demo_k.rs", "seeded_demo_m.rs"), ("seeded_demo_l.rs", "seeded_demo_n.rs"),
             ("for K and L", "for M and N"), ("summary of K and L", "summary of M and N"),
             ("K.diff / L.diff", "M.diff / N.diff"), ("demo_k.rs / demo_l.rs", "demo_m.rs / demo_n.rs")]:
    out = out.replace(a, b)
print(out)
