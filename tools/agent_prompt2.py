#!/usr/bin/env python3
"""Second-round prompt: same as agent_prompt.py plus a list of ideas that were already used (to get different ones)."""
import json, subprocess, sys
pid = sys.argv[1]
USED = {
 "C01": ["skip an exactly-quantified pattern once its count is reached", "transposed index in the 7-tuple Clause impl"],
 "C02": ["call counter fetch_add split into load+store", "Deep<Option<..>> output returning None instead of refusing the second request"],
 "C03": ["the +1 of a trailing then() only applied when the clause is deconstructed (lost inside stub closures)", "per-method verification short-circuits after the first method with an error"],
 "C04": ["slot ranges also allocated for exactly-quantified unordered clauses", "binary search over slot ranges accepting index == start of an empty range"],
 "C05": ["-> impl Future methods evaluate the call when the future is created", "input matcher skipped for zero-sized inputs"],
 "C06": ["eq!/ne! operand locals numbered so that they collide across alternatives", "the if-guard only applied to the first alternative"],
 "C07": ["fall-through helper preferring default bodies for mentioned-but-unmatched calls", "unmock_with index computed after filtering skipped functions"],
 "C08": ["errors induced through the original on its own thread not recorded", "error list updated by copy-modify-swap under two separate lock acquisitions"],
 "C09": ["torn_down flag set after the recorded-errors early return", "value chain released after the live-clone check"],
 "C10": ["CAS loop returning the value of the initial load", "global ordered index bumped only after the inputs matched"],
 "C11": ["live-clone check hoisted above the thread::panicking() return", "foreign-thread check hoisted above the thread::panicking() return"],
 "C12": ["tuple output evaluating all leaves before checking for an exhausted one", "Poll IntoReturn impl using the single-use conversion"],
 "C13": ["value chain append using get() then get_or_init()", "delegation helper rebuilt on every as_mut()"],
 "C14": ["transposed index in the 13-tuple Clause impl", "mixed-mode check only for incoming ordered patterns"],
 "C15": ["by-value delegation reusing a cached helper clone", "partial mocks unmock instead of running the default body for unmentioned provided methods"],
 "C16": ["unmock_with index shifted by skipped associated functions", "partial fall-through of a mentioned provided method prefers the default body"],
 "C17": ["Deep<Option> multi-use path delegating to the single-use conversion", "Deep<Vec> single-use conversion reversing the elements"],
 "C18": ["slot ranges for exactly-quantified unordered clauses (order of clauses across methods matters)", "errors induced through the original not recorded"],
 "C19": ["mismatch report skipping bare-identifier sub-patterns", "pattern index always 0 in errors after any-order selection"],
 "C20": ["fallback mode consulted before has_default_impl for unmentioned methods", "is_write_vectored mirrored without a default body"],
}
base = subprocess.run([sys.executable, "/verif/tools/agent_prompt.py", pid], capture_output=True, text=True).stdout
extra = ("\n\nIMPORTANT - other people already produced the following two changes for this property; yours must be "
         "DIFFERENT in kind and location from both (do not re-use these ideas, and prefer parts of the code base / "
         "aspects of the property they do not touch):\n  1. " + USED[pid][0] + "\n  2. " + USED[pid][1] +
         "\nName your deliverables C.diff / D.diff and demo_c.rs / demo_d.rs (tests/seeded_demo_c.rs, tests/seeded_demo_d.rs) instead of A/B.\n")
print(base.replace("call them A and B", "call them C and D").replace("SEEDED/A.diff and", "SEEDED/C.diff and").replace("SEEDED/B.diff", "SEEDED/D.diff").replace("SEEDED/demo_a.rs and", "SEEDED/demo_c.rs and").replace("SEEDED/demo_b.rs", "SEEDED/demo_d.rs").replace("seeded_demo_a.rs and seeded_demo_b.rs", "seeded_demo_c.rs and seeded_demo_d.rs").replace("for A and B", "for C and D").replace("summary of A and B", "summary of C and D") + extra)
