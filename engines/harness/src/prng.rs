//! Small deterministic PRNG (splitmix64 seeded xorshift64*). No dependencies.

#[derive(Clone, Debug)]
pub struct Rng(u64);

pub fn mix(mut z: u64) -> u64 {
    z = z.wrapping_add(0x9E3779B97F4A7C15);
    z = (z ^ (z >> 30)).wrapping_mul(0xBF58476D1CE4E5B9);
    z = (z ^ (z >> 27)).wrapping_mul(0x94D049BB133111EB);
    z ^ (z >> 31)
}

pub fn mix3(a: u64, b: u64, c: u64) -> u64 {
    mix(mix(mix(a) ^ b.wrapping_mul(0x9E3779B97F4A7C15)) ^ c.wrapping_mul(0xD1B54A32D192ED03))
}

impl Rng {
    pub fn new(seed: u64) -> Self {
        let s = mix(seed);
        Rng(if s == 0 { 0x1234_5678_9abc_def1 } else { s })
    }

    pub fn next_u64(&mut self) -> u64 {
        let mut x = self.0;
        x ^= x >> 12;
        x ^= x << 25;
        x ^= x >> 27;
        self.0 = x;
        x.wrapping_mul(0x2545F4914F6CDD1D)
    }

    /// uniform in 0..n (n > 0)
    pub fn below(&mut self, n: usize) -> usize {
        debug_assert!(n > 0);
        ((self.next_u64() >> 11) % (n as u64)) as usize
    }

    /// uniform in lo..=hi
    pub fn range(&mut self, lo: usize, hi: usize) -> usize {
        lo + self.below(hi - lo + 1)
    }

    pub fn chance(&mut self, num: usize, den: usize) -> bool {
        self.below(den) < num
    }

    pub fn pick<'a, T>(&mut self, items: &'a [T]) -> &'a T {
        &items[self.below(items.len())]
    }

    pub fn shuffle<T>(&mut self, items: &mut [T]) {
        for i in (1..items.len()).rev() {
            let j = self.below(i + 1);
            items.swap(i, j);
        }
    }
}

/// FNV-1a, for case hashes
pub fn fnv(bytes: &[u8]) -> u64 {
    let mut h = 0xcbf29ce484222325u64;
    for b in bytes {
        h ^= *b as u64;
        h = h.wrapping_mul(0x100000001b3);
    }
    h
}
