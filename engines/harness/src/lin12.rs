//! C12 (single-use values move out at most once) and C13 (lent references stay valid) workloads
//! for the sched engine: controlled schedules, free-running stress, and plain sequential runs that are
//! also executed under Miri / valgrind.

use std::collections::HashSet;
use std::panic::{catch_unwind, AssertUnwindSafe};
use std::sync::Mutex;
use std::task::Poll;

use unimock::*;

use crate::acc::Acc;
use crate::check::Discrepancy;
use crate::exec::{classify_payload, Obs};
use crate::json::{arr, esc, Obj};
use crate::prng::{fnv, mix3, Rng};
use crate::sched::{install_hook, next_dfs_prefix, pct_strategy, run_controlled, Strategy};
use crate::spec::classify_panic;
use crate::toks::{self, CTok, LMock, TMock, Tok, Val, L, T};

fn arg(args: &[String], name: &str) -> Option<String> {
    args.iter()
        .position(|a| a == name)
        .and_then(|i| args.get(i + 1).cloned())
}

fn guarded<R>(f: impl FnOnce() -> R) -> Result<R, Obs> {
    catch_unwind(AssertUnwindSafe(f)).map_err(classify_payload)
}

// ------------------------------------------------------------------------------------------------
// C12

#[derive(Clone, Copy, Debug, PartialEq, Eq, Hash)]
pub enum Shape {
    Tok,
    Opt,
    ResMix,
    TupMix,
    OptMix,
    PollMix,
    Tup4,
    CTok,
    ResC,
    TupC,
    PollC,
    OptC,
    Tup4C,
}

const SINGLE_SHAPES: [Shape; 7] = [
    Shape::Tok,
    Shape::Opt,
    Shape::ResMix,
    Shape::TupMix,
    Shape::OptMix,
    Shape::PollMix,
    Shape::Tup4,
];
const CLONE_SHAPES: [Shape; 6] = [
    Shape::CTok,
    Shape::ResC,
    Shape::TupC,
    Shape::PollC,
    Shape::OptC,
    Shape::Tup4C,
];

#[derive(Clone, Copy, Debug, PartialEq, Eq, Hash)]
pub enum Setup {
    /// `some_call(..).returns(v)`
    SomePlain,
    /// `some_call(..).returns(v).once()`
    SomeOnce,
    /// `next_call(..).returns(v)`
    NextPlain,
    /// `next_call(..).returns(v).once()`
    NextOnce,
    /// `some_call(..).returns(v).once().then().panics("later")`
    SomeOnceThenPanics,
    /// `each_call(..).returns(v)` (needs Clone)
    Each,
    /// `some_call(..).returns(v).n_times(k)` (needs Clone)
    SomeN(usize),
    /// `each_call(..).returns(v).at_least_times(k)`
    EachAtLeast(usize),
}

#[derive(Clone, Debug, PartialEq, Eq, Hash)]
pub struct C12Case {
    pub shape: Shape,
    pub setup: Setup,
    /// (own clone?, number of requests, keep the delivered values until the end of the thread?)
    pub threads: Vec<(bool, usize, bool)>,
}

impl std::fmt::Display for C12Case {
    fn fmt(&self, f: &mut std::fmt::Formatter<'_>) -> std::fmt::Result {
        write!(f, "{:?} via {:?};", self.shape, self.setup)?;
        for (i, (c, n, keep)) in self.threads.iter().enumerate() {
            write!(
                f,
                " T{i}({}{}): {n} requests |",
                if *c { "clone" } else { "&shared" },
                if *keep { ",keeps" } else { "" }
            )?;
        }
        Ok(())
    }
}

impl C12Case {
    pub fn hash64(&self) -> u64 {
        fnv(format!("{self:?}").as_bytes())
    }
    fn repeatable(&self) -> bool {
        CLONE_SHAPES.contains(&self.shape)
    }
}

pub fn gen_c12(rng: &mut Rng, max_threads: usize, max_requests: usize) -> C12Case {
    let repeatable = rng.chance(1, 3);
    let shape = if repeatable {
        *rng.pick(&CLONE_SHAPES)
    } else {
        *rng.pick(&SINGLE_SHAPES)
    };
    let setup = if repeatable {
        match rng.below(3) {
            0 => Setup::Each,
            1 => Setup::SomeN(rng.range(0, 4)),
            _ => Setup::EachAtLeast(rng.below(3)),
        }
    } else {
        *rng.pick(&[
            Setup::SomePlain,
            Setup::SomeOnce,
            Setup::NextPlain,
            Setup::NextOnce,
            Setup::SomeOnceThenPanics,
        ])
    };
    let n = rng.range(1, max_threads);
    let threads = (0..n)
        .map(|_| (rng.chance(1, 2), rng.below(max_requests + 1), rng.chance(1, 2)))
        .collect();
    C12Case {
        shape,
        setup,
        threads,
    }
}

/// What one request produced: ids of the owned leaves delivered, or a panic
#[derive(Debug, Clone)]
pub enum Req {
    Delivered(Vec<u32>),
    Panic(String),
    Other(String),
}

pub struct C12Trace {
    /// ids of the owned leaves that were configured
    pub leaves: Vec<u32>,
    pub reqs: Vec<(usize, Req)>,
    /// delivered ids that were found already dropped at delivery time
    pub dropped_on_delivery: Vec<u32>,
    pub drops_before_final: Vec<u32>,
    pub final_obs: Obs,
    pub exec: crate::sched::ExecInfo,
}

macro_rules! clause_for {
    ($mockfn:expr, $setup:expr, $value:expr, single) => {{
        let m = &|m: &mut unimock::private::Matching<_>| m.func(|_, _| true);
        let mut c = unimock::verif::DynClause::new();
        match $setup {
            Setup::SomePlain => c.push($mockfn.some_call(m).returns($value)),
            Setup::SomeOnce => c.push($mockfn.some_call(m).returns($value).once()),
            Setup::NextPlain => c.push($mockfn.next_call(m).returns($value)),
            Setup::NextOnce => c.push($mockfn.next_call(m).returns($value).once()),
            Setup::SomeOnceThenPanics => {
                c.push($mockfn.some_call(m).returns($value).once().then().panics("later"))
            }
            other => panic!("generator bug: {other:?} needs Clone"),
        }
        c
    }};
    ($mockfn:expr, $setup:expr, $value:expr, multi) => {{
        let m = &|m: &mut unimock::private::Matching<_>| m.func(|_, _| true);
        let mut c = unimock::verif::DynClause::new();
        match $setup {
            Setup::Each => c.push($mockfn.each_call(m).returns($value)),
            Setup::SomeN(k) => c.push($mockfn.some_call(m).returns($value).n_times(k)),
            Setup::EachAtLeast(k) => c.push($mockfn.each_call(m).returns($value).at_least_times(k)),
            other => panic!("generator bug: {other:?} is a single-use setup"),
        }
        c
    }};
}

fn build_c12(case: &C12Case) -> (Unimock, Vec<u32>) {
    let s = case.setup;
    let (clause, leaves) = match case.shape {
        Shape::Tok => {
            let t = Tok::new();
            let ids = vec![t.id];
            (clause_for!(TMock::t_tok, s, t, single), ids)
        }
        Shape::Opt => {
            let t = Tok::new();
            let ids = vec![t.id];
            (clause_for!(TMock::t_opt, s, Some(t), single), ids)
        }
        Shape::ResMix => {
            let t = Tok::new();
            let ids = vec![t.id];
            (clause_for!(TMock::t_res_mix, s, Err::<&str, _>(t), single), ids)
        }
        Shape::TupMix => {
            let t = Tok::new();
            let ids = vec![t.id];
            (clause_for!(TMock::t_tup_mix, s, (t, "lent"), single), ids)
        }
        Shape::OptMix => {
            let t = Tok::new();
            let ids = vec![t.id];
            (clause_for!(TMock::t_opt_mix, s, Some(Err::<&str, _>(t)), single), ids)
        }
        Shape::PollMix => {
            let t = Tok::new();
            let ids = vec![t.id];
            (
                clause_for!(TMock::t_poll_mix, s, Poll::Ready(Err::<&str, _>(t)), single),
                ids,
            )
        }
        Shape::Tup4 => {
            let (a, b) = (Tok::new(), Tok::new());
            let ids = vec![a.id, b.id];
            (clause_for!(TMock::t_tup4, s, (Val::new(), a, "lent", b), single), ids)
        }
        Shape::CTok => {
            let t = CTok::new();
            let ids = vec![t.id];
            (clause_for!(TMock::t_ctok, s, t, multi), ids)
        }
        Shape::ResC => {
            let t = CTok::new();
            let ids = vec![t.id];
            (clause_for!(TMock::t_res_c, s, Err::<&str, _>(t), multi), ids)
        }
        Shape::TupC => {
            let t = CTok::new();
            let ids = vec![t.id];
            (clause_for!(TMock::t_tup_c, s, (t, "lent"), multi), ids)
        }
        Shape::PollC => {
            let t = CTok::new();
            let ids = vec![t.id];
            (
                clause_for!(TMock::t_poll_c, s, Poll::Ready(Err::<&str, _>(t)), multi),
                ids,
            )
        }
        Shape::OptC => {
            let t = CTok::new();
            let ids = vec![t.id];
            (clause_for!(TMock::t_opt_c, s, Some(Err::<&str, _>(t)), multi), ids)
        }
        Shape::Tup4C => {
            let (a, b) = (CTok::new(), CTok::new());
            let ids = vec![a.id, b.id];
            (clause_for!(TMock::t_tup4_c, s, (Val::new(), a, "lent", b), multi), ids)
        }
    };
    (Unimock::new(clause), leaves)
}

/// The delivered value, kept alive by the caller
enum Held {
    Tok(#[allow(dead_code)] Tok),
    Opt(#[allow(dead_code)] Option<Tok>),
    Two(#[allow(dead_code)] Tok, #[allow(dead_code)] Tok),
    C(#[allow(dead_code)] CTok),
    TwoC(#[allow(dead_code)] CTok, #[allow(dead_code)] CTok),
}

fn request(u: &Unimock, shape: Shape) -> Result<(Vec<u32>, Held), String> {
    Ok(match shape {
        Shape::Tok => {
            let t = u.t_tok(0);
            (vec![t.id], Held::Tok(t))
        }
        Shape::Opt => {
            let t = u.t_opt(0);
            (t.iter().map(|t| t.id).collect(), Held::Opt(t))
        }
        Shape::ResMix => match u.t_res_mix(0) {
            Err(t) => (vec![t.id], Held::Tok(t)),
            Ok(s) => return Err(format!("Ok({s:?}) instead of the configured Err")),
        },
        Shape::TupMix => {
            let (t, s) = u.t_tup_mix(0);
            if s != "lent" {
                return Err(format!("borrowed leaf {s:?}"));
            }
            (vec![t.id], Held::Tok(t))
        }
        Shape::OptMix => match u.t_opt_mix(0) {
            Some(Err(t)) => (vec![t.id], Held::Tok(t)),
            other => return Err(format!("{other:?} instead of Some(Err(..))")),
        },
        Shape::PollMix => match u.t_poll_mix(0) {
            Poll::Ready(Err(t)) => (vec![t.id], Held::Tok(t)),
            other => return Err(format!("{other:?} instead of Ready(Err(..))")),
        },
        Shape::Tup4 => {
            let (v, a, s, b) = u.t_tup4(0);
            if !v.intact() || s != "lent" {
                return Err("borrowed leaves damaged".into());
            }
            (vec![a.id, b.id], Held::Two(a, b))
        }
        Shape::CTok => {
            let t = u.t_ctok(0);
            (vec![t.id], Held::C(t))
        }
        Shape::ResC => match u.t_res_c(0) {
            Err(t) => (vec![t.id], Held::C(t)),
            Ok(s) => return Err(format!("Ok({s:?}) instead of the configured Err")),
        },
        Shape::TupC => {
            let (t, s) = u.t_tup_c(0);
            if s != "lent" {
                return Err(format!("borrowed leaf {s:?}"));
            }
            (vec![t.id], Held::C(t))
        }
        Shape::PollC => match u.t_poll_c(0) {
            Poll::Ready(Err(t)) => (vec![t.id], Held::C(t)),
            other => return Err(format!("{other:?} instead of Ready(Err(..))")),
        },
        Shape::OptC => match u.t_opt_c(0) {
            Some(Err(t)) => (vec![t.id], Held::C(t)),
            other => return Err(format!("{other:?} instead of Some(Err(..))")),
        },
        Shape::Tup4C => {
            let (v, a, s, b) = u.t_tup4_c(0);
            if !v.intact() || s != "lent" {
                return Err("borrowed leaves damaged".into());
            }
            (vec![a.id, b.id], Held::TwoC(a, b))
        }
    })
}

pub fn run_c12(case: &C12Case, strategy: Option<Strategy>) -> C12Trace {
    toks::reset();
    let (original, leaves) = build_c12(case);
    let clones: Vec<Option<Unimock>> = case
        .threads
        .iter()
        .map(|t| if t.0 { Some(original.clone()) } else { None })
        .collect();
    let reqs: Mutex<Vec<(usize, Req)>> = Mutex::new(vec![]);
    let dropped_on_delivery: Mutex<Vec<u32>> = Mutex::new(vec![]);
    let barrier = std::sync::Barrier::new(case.threads.len());
    let free = strategy.is_none();
    let shape = case.shape;

    let mut bodies: Vec<Box<dyn FnOnce() + Send + '_>> = vec![];
    for (tid, (_, n, keep)) in case.threads.iter().copied().enumerate() {
        let inst: &Unimock = clones[tid].as_ref().unwrap_or(&original);
        let reqs = &reqs;
        let dropped_on_delivery = &dropped_on_delivery;
        let barrier = &barrier;
        bodies.push(Box::new(move || {
            if free {
                barrier.wait();
            }
            let mut kept: Vec<Held> = vec![];
            for _ in 0..n {
                let r = guarded(|| request(inst, shape));
                let rec = match r {
                    Ok(Ok((ids, held))) => {
                        for id in &ids {
                            if toks::drops(*id) != 0 {
                                dropped_on_delivery.lock().unwrap().push(*id);
                            }
                        }
                        if keep {
                            kept.push(held);
                        } else {
                            drop(held);
                        }
                        Req::Delivered(ids)
                    }
                    Ok(Err(why)) => Req::Other(why),
                    Err(Obs::PanicString(m)) => Req::Panic(m),
                    Err(o) => Req::Other(format!("{o:?}")),
                };
                reqs.lock().unwrap().push((tid, rec));
            }
            drop(kept);
        }));
    }
    let exec = match strategy {
        Some(s) => run_controlled(bodies, s),
        None => {
            std::thread::scope(|scope| {
                for b in bodies {
                    scope.spawn(b);
                }
            });
            Default::default()
        }
    };
    for c in clones.into_iter().flatten() {
        let _ = guarded(move || drop(c));
    }
    // the state shared by all instances is now only held by the original
    let drops_before_final = leaves.iter().map(|id| toks::drops(*id)).collect();
    // the original goes away by drop, by an explicit verify() or through Termination::report(): the stored values
    // must be released (exactly once) on each of these paths
    let final_obs = match case.hash64() % 3 {
        0 => guarded(move || drop(original)),
        1 => guarded(move || original.verify()),
        #[cfg(feature = "cfg-std")]
        _ => guarded(move || {
            let _code = std::process::Termination::report(original);
        }),
        #[cfg(not(feature = "cfg-std"))]
        _ => guarded(move || drop(original)),
    };
    let final_obs = match final_obs {
        Ok(()) => Obs::Silent,
        Err(o) => o,
    };
    C12Trace {
        leaves,
        reqs: reqs.into_inner().unwrap(),
        dropped_on_delivery: dropped_on_delivery.into_inner().unwrap(),
        drops_before_final,
        final_obs,
        exec,
    }
}

/// A successful request never needs a message about the call: the single-use value reaches its caller whatever
/// the arguments' `Debug` impls do (they are only for error texts); it is then dropped exactly once.
pub fn run_c12_norender() -> Result<(), String> {
    toks::reset();
    for setup in 0..4 {
        let t = Tok::new();
        let id = t.id;
        let m = &|m: &mut unimock::private::Matching<_>| m.func(|_, _| true);
        let reject = &|m: &mut unimock::private::Matching<_>| m.func(|_, _| false);
        let u = match setup {
            0 => Unimock::new(TMock::t_arg.some_call(m).returns(t)),
            1 => Unimock::new(TMock::t_arg.next_call(m).returns(t)),
            2 => Unimock::new(TMock::t_arg.some_call(m).returns(t).once()),
            // an earlier pattern of the same method rejects the call: the later one answers, still without any
            // need to render the arguments
            _ => Unimock::new((
                TMock::t_arg.each_call(reject).answers(&|_, _| Tok::new()),
                TMock::t_arg
                    .each_call(matching!(toks::NoRender(200)))
                    .answers(&|_, _| Tok::new()),
                TMock::t_arg.some_call(matching!(_)).returns(t),
            ))
            .no_verify_in_drop(),
        };
        let got = guarded(|| u.t_arg(toks::NoRender(1)));
        match got {
            Ok(tok) if tok.id == id => drop(tok),
            Ok(tok) => return Err(format!("setup {setup}: value {} delivered instead of {id}", tok.id)),
            Err(o) => {
                let _ = guarded(move || drop(u));
                return Err(format!(
                    "setup {setup}: the only request for a single-use value did not receive it: {o:?} (value drop count {})",
                    toks::drops(id)
                ));
            }
        }
        if let Err(o) = guarded(move || drop(u)) {
            return Err(format!("setup {setup}: verification after one delivered request failed: {o:?}"));
        }
        if toks::drops(id) != 1 {
            return Err(format!("setup {setup}: value dropped {} times", toks::drops(id)));
        }
    }
    Ok(())
}

pub fn check_c12(case: &C12Case, t: &C12Trace) -> Option<Discrepancy> {
    // "the second request for a single-use value panics instead of producing a value" is also C02's statement
    let single = !case.repeatable();
    let concurrent = case.threads.len() > 1;
    let d = |at: &str, expected: String, observed: String| {
        // a request that is refused / served wrongly is also "the k-th match gets what the chain assigns" (C02); with
        // several threads it is "no call is lost or given another call's position" (C10)
        let mut props = vec!["C12"];
        if at == "request" || at == "deliveries" || at == "delivery" {
            props.push("C02");
            if concurrent {
                props.push("C10");
            }
        }
        let _ = single;
        Some(Discrepancy {
            props,
            at: at.into(),
            expected,
            observed,
        })
    };
    if let Some((tid, Req::Other(why))) = t.reqs.iter().find(|(_, r)| matches!(r, Req::Other(_))) {
        return d(
            "request",
            "the configured value or a mock panic".into(),
            format!("thread {tid}: {why}"),
        );
    }
    if !t.dropped_on_delivery.is_empty() {
        return d(
            "delivery",
            "a live value".into(),
            format!("values {:?} were already dropped when delivered", t.dropped_on_delivery),
        );
    }
    let total: usize = t.reqs.len();
    let delivered: Vec<&Vec<u32>> = t
        .reqs
        .iter()
        .filter_map(|(_, r)| match r {
            Req::Delivered(ids) => Some(ids),
            _ => None,
        })
        .collect();
    let infos = toks::all_infos();

    if !case.repeatable() {
        // at most one caller gets the value(s); every other request panics
        for leaf in &t.leaves {
            let n = delivered.iter().filter(|ids| ids.contains(leaf)).count();
            if n > 1 {
                return d(
                    "deliveries",
                    format!("single-use value {leaf} handed to at most one caller"),
                    format!("{n} callers received it: {:?}", t.reqs),
                );
            }
        }
        let want = if total >= 1 { 1 } else { 0 };
        if delivered.len() != want {
            return d(
                "deliveries",
                format!("{want} successful request(s) out of {total}, every other one panicking"),
                format!("{} succeeded: {:?}", delivered.len(), t.reqs),
            );
        }
        for ids in &delivered {
            let mut got = (*ids).clone();
            got.sort();
            let mut want = t.leaves.clone();
            want.sort();
            if got != want {
                return d(
                    "delivery",
                    format!("the configured leaves {want:?}"),
                    format!("{got:?} (a value that was never configured, or only part of it)"),
                );
            }
        }
        for (tid, r) in &t.reqs {
            if let Req::Panic(m) = r {
                if classify_panic(m).is_none() {
                    return d("request", "a mock-induced panic".into(), format!("thread {tid}: {m}"));
                }
            }
        }
        // not dropped early: an undelivered value lives as long as the shared state
        if total == 0 && t.drops_before_final.iter().any(|n| *n != 0) {
            return d(
                "before the last instance is dropped",
                "the never requested value still alive".into(),
                format!("drop counts {:?}", t.drops_before_final),
            );
        }
    } else {
        for ids in &delivered {
            if ids.len() != t.leaves.len() {
                return d(
                    "delivery",
                    format!("{} owned leaves", t.leaves.len()),
                    format!("{ids:?}"),
                );
            }
            for (pos, id) in ids.iter().enumerate() {
                let original = t.leaves[pos];
                let parent = infos.get(*id as usize).and_then(|i| i.parent);
                if parent != Some(original) {
                    return d(
                        "delivery",
                        format!("a clone of the stored original (id {original})"),
                        format!("value {id} with parent {parent:?}"),
                    );
                }
            }
        }
        if t.drops_before_final.iter().any(|n| *n != 0) {
            return d(
                "before the last instance is dropped",
                "the stored originals intact".into(),
                format!("drop counts {:?}", t.drops_before_final),
            );
        }
        let k = match case.setup {
            Setup::SomeN(k) => Some(k),
            _ => None,
        };
        let ok_expected = k.map(|k| k.min(total));
        if let Some(k) = ok_expected {
            // beyond n_times the behaviour is not defined by the property; up to it every request succeeds
            if delivered.len() < k {
                return d(
                    "deliveries",
                    format!("at least {k} successful requests"),
                    format!("{}", delivered.len()),
                );
            }
        } else if delivered.len() != total {
            return d(
                "deliveries",
                format!("all {total} requests succeed"),
                format!("{} succeeded: {:?}", delivered.len(), t.reqs),
            );
        }
    }
    // conservation: everything constructed has been dropped exactly once by now
    for (id, i) in infos.iter().enumerate() {
        if i.drops != 1 {
            return d(
                "after everything is dropped",
                "every constructed value dropped exactly once".into(),
                format!(
                    "value {id} (parent {:?}) was dropped {} times; leaves {:?}",
                    i.parent, i.drops, t.leaves
                ),
            );
        }
    }
    None
}

// ------------------------------------------------------------------------------------------------
// C13

#[derive(Clone, Copy, Debug, PartialEq, Eq, Hash)]
pub enum LendOp {
    /// `make_ref(Val)` directly
    MakeRefVal,
    /// `make_ref(u64)` / `make_ref(String)`: other types in the same chain
    MakeRefU64,
    MakeRefString,
    /// `l_ref(1)`: answered by a function calling `make_ref`
    CallAnswerRef,
    /// `l_ref(0)`: answered by `returns(Val)` (value stored in the shared pattern)
    CallReturnsRef,
    /// `l_opt(0)`: `returns(Some(Val))`
    CallReturnsOpt,
    /// `l_str(0)`
    CallReturnsStr,
    /// `l_default(1)`: the default body runs on the delegation helper and calls l_ref(1)
    CallViaDefault,
    /// `make_mut(Val)`: needs exclusive access, ends the current borrow phase
    MakeMut,
    /// `l_mut(0)`: answered by a function calling `make_mut`
    CallAnswerMut,
    /// `l_touch(3)`: a `&mut self` provided method (delegation helper through `as_mut`) that lends nothing:
    /// needs exclusive access but releases nothing
    TouchMut,
    /// the same through a `Pin<&mut Self>` provided method
    TouchPin,
}

const SHARED_OPS: [LendOp; 8] = [
    LendOp::MakeRefVal,
    LendOp::MakeRefU64,
    LendOp::MakeRefString,
    LendOp::CallAnswerRef,
    LendOp::CallReturnsRef,
    LendOp::CallReturnsOpt,
    LendOp::CallReturnsStr,
    LendOp::CallViaDefault,
];

fn lending_mock() -> (Unimock, Vec<u32>) {
    let (u, ids) = lending_mock_verifying();
    (u.no_verify_in_drop(), ids)
}

/// The same mock with verification in drop left on (clones inherit that setting: their teardown runs in `Drop`).
fn lending_mock_verifying() -> (Unimock, Vec<u32>) {
    let shared_a = Val::new();
    let shared_b = Val::new();
    let ids = vec![shared_a.id, shared_b.id];
    let u = Unimock::new((
        LMock::l_ref
            .each_call(matching!(0))
            .returns(shared_a),
        LMock::l_ref
            .each_call(matching!(_))
            .answers(&|u: &Unimock, _x: u8| u.make_ref(Val::new())),
        LMock::l_opt.each_call(matching!(_)).returns(Some(shared_b)),
        LMock::l_str.each_call(matching!(_)).returns("shared string".to_string()),
        LMock::l_mut
            .each_call(matching!(_))
            .answers(&|u: &mut Unimock, _x: u8| u.make_mut(Val::new())),
        LMock::l_num.each_call(matching!(_)).returns(41u32),
    ));
    (u, ids)
}

enum LiveRef<'a> {
    Val { r: &'a Val, addr: usize, id: u32, chain: bool },
    U64 { r: &'a u64, addr: usize, v: u64 },
    Str { r: &'a str, addr: usize, v: String },
}

fn validate(live: &[LiveRef<'_>], released: &HashSet<u32>) -> Result<(), String> {
    let mut chain_addrs = HashSet::new();
    for l in live {
        match l {
            LiveRef::Val { r, addr, id, chain } => {
                if *r as *const Val as usize != *addr {
                    return Err(format!("reference to value {id} moved"));
                }
                if r.id != *id || !r.intact() {
                    return Err(format!(
                        "reference lent for value {id} now shows id {} payload intact={}",
                        r.id,
                        r.intact()
                    ));
                }
                if toks::drops(*id) != 0 && !released.contains(id) {
                    return Err(format!("value {id} was dropped while still borrowed"));
                }
                if *chain && !chain_addrs.insert(*addr) {
                    return Err(format!("two live lent values share the address of value {id}"));
                }
            }
            LiveRef::U64 { r, addr, v } => {
                if *r as *const u64 as usize != *addr || **r != *v {
                    return Err(format!("lent u64 {v} changed to {}", **r));
                }
                if !chain_addrs.insert(*addr) {
                    return Err("two live lent values share an address".into());
                }
            }
            LiveRef::Str { r, addr, v } => {
                if r.as_ptr() as usize != *addr || *r != v.as_str() {
                    return Err(format!("lent string {v:?} changed to {r:?}"));
                }
            }
        }
    }
    Ok(())
}

/// One borrow phase on one instance: shared operations, all references re-validated after every step.
/// Returns the ids lent from the instance's own chain.
fn shared_phase(
    u: &Unimock,
    ops: &[LendOp],
    released: &HashSet<u32>,
    steps_done: &mut u64,
) -> Result<Vec<u32>, String> {
    let mut live: Vec<LiveRef<'_>> = vec![];
    let mut chain_ids = vec![];
    for (i, op) in ops.iter().enumerate() {
        match op {
            LendOp::MakeRefVal => {
                let v = Val::new();
                let id = v.id;
                let r = u.make_ref(v);
                chain_ids.push(id);
                live.push(LiveRef::Val { r, addr: r as *const Val as usize, id, chain: true });
            }
            LendOp::MakeRefU64 => {
                let v = 0xA000_0000u64 + i as u64;
                let r = u.make_ref(v);
                live.push(LiveRef::U64 { r, addr: r as *const u64 as usize, v });
            }
            LendOp::MakeRefString => {
                let v = format!("string #{i}");
                let r: &String = u.make_ref(v.clone());
                live.push(LiveRef::Str { r: r.as_str(), addr: r.as_ptr() as usize, v });
            }
            LendOp::CallAnswerRef | LendOp::CallViaDefault => {
                let r = if *op == LendOp::CallAnswerRef { u.l_ref(1) } else { u.l_default(1) };
                let id = r.id;
                if toks::info(id).created_at == 0 {
                    return Err("answer returned a value unknown to the registry".into());
                }
                chain_ids.push(id);
                // values lent through the delegation helper live in the helper's chain
                live.push(LiveRef::Val { r, addr: r as *const Val as usize, id, chain: true });
            }
            LendOp::CallReturnsRef => {
                let r = u.l_ref(0);
                live.push(LiveRef::Val { r, addr: r as *const Val as usize, id: r.id, chain: false });
            }
            LendOp::CallReturnsOpt => match u.l_opt(0) {
                Some(r) => live.push(LiveRef::Val { r, addr: r as *const Val as usize, id: r.id, chain: false }),
                None => return Err("l_opt returned None instead of the configured Some".into()),
            },
            LendOp::CallReturnsStr => {
                let r = u.l_str(0);
                live.push(LiveRef::Str { r, addr: r.as_ptr() as usize, v: "shared string".into() });
            }
            LendOp::MakeMut | LendOp::CallAnswerMut | LendOp::TouchMut | LendOp::TouchPin => unreachable!(),
        }
        *steps_done += 1;
        validate(&live, released).map_err(|e| format!("after step {i} ({op:?}): {e}"))?;
    }
    // repeated borrowed returns must point at the same stored value
    let mut shared_addr: std::collections::HashMap<u32, usize> = Default::default();
    for l in &live {
        if let LiveRef::Val { addr, id, chain: false, .. } = l {
            if let Some(prev) = shared_addr.insert(*id, *addr) {
                if prev != *addr {
                    return Err(format!("borrowed return {id} lent from two different addresses"));
                }
            }
        }
    }
    Ok(chain_ids)
}

pub fn gen_lend_ops(rng: &mut Rng, n: usize) -> Vec<LendOp> {
    (0..n)
        .map(|_| {
            if rng.chance(1, 10) {
                match rng.below(4) {
                    0 => LendOp::MakeMut,
                    1 => LendOp::CallAnswerMut,
                    2 => LendOp::TouchPin,
                    _ => LendOp::TouchMut,
                }
            } else {
                *rng.pick(&SHARED_OPS)
            }
        })
        .collect()
}

/// Sequential C13 scenario on the original and one clone.
pub fn run_c13_seq(rng: &mut Rng, n_ops: usize, steps_done: &mut u64) -> Result<(), String> {
    toks::reset();
    // how the instances go away at the end: 0 = the clone while its thread unwinds from a user panic, 1 = the original
    // while its thread unwinds, otherwise both normally. Lent values must be dropped exactly once in every case.
    let ending = rng.below(4);
    let (original, shared_ids) = if ending <= 1 { lending_mock_verifying() } else { lending_mock() };
    let clone = original.clone();
    let mut insts = vec![original, clone];
    let mut chain_ids: Vec<Vec<u32>> = vec![vec![], vec![]];
    let mut released: HashSet<u32> = HashSet::new();

    let plan: Vec<(usize, Vec<LendOp>)> = (0..rng.range(1, 4))
        .map(|_| (rng.below(2), gen_lend_ops(rng, n_ops)))
        .collect();
    for (which, ops) in plan {
        let mut rest: &[LendOp] = &ops;
        while !rest.is_empty() {
            let split = rest
                .iter()
                .position(|o| matches!(o, LendOp::MakeMut | LendOp::CallAnswerMut | LendOp::TouchMut | LendOp::TouchPin))
                .unwrap_or(rest.len());
            let ids = shared_phase(&insts[which], &rest[..split], &released, steps_done)?;
            chain_ids[which].extend(ids);
            if split < rest.len() && matches!(rest[split], LendOp::TouchMut | LendOp::TouchPin) {
                // exclusive access, but nothing is lent mutably: every value lent so far must stay alive
                let n = if rest[split] == LendOp::TouchMut {
                    insts[which].l_touch(3)
                } else {
                    // "shared string" has 13 bytes
                    std::pin::Pin::new(&mut insts[which]).l_touch_pin(3)
                };
                if n != 42 {
                    return Err(format!("l_touch / l_touch_pin returned {n} instead of 42"));
                }
                *steps_done += 1;
                for id in &chain_ids[which] {
                    if toks::drops(*id) != 0 {
                        return Err(format!(
                            "value {id} lent by instance {which} was dropped by a `&mut self` provided method that lends nothing"
                        ));
                    }
                }
                rest = &rest[split + 1..];
            } else if split < rest.len() {
                // exclusive access: earlier values of this instance may be released now
                for id in chain_ids[which].drain(..) {
                    released.insert(id);
                }
                let v: &mut Val = if rest[split] == LendOp::MakeMut {
                    insts[which].make_mut(Val::new())
                } else {
                    insts[which].l_mut(0)
                };
                if !v.intact() {
                    return Err("make_mut returned a damaged value".into());
                }
                let id = v.id;
                v.payload[0] ^= 1; // the caller may mutate it
                v.payload[0] ^= 1;
                chain_ids[which].push(id);
                *steps_done += 1;
                rest = &rest[split + 1..];
            } else {
                break;
            }
        }
    }
    // nothing that is still lent may have been dropped
    for (which, ids) in chain_ids.iter().enumerate() {
        for id in ids {
            if toks::drops(*id) != 0 {
                return Err(format!("value {id} lent by instance {which} was dropped before the instance"));
            }
        }
    }
    // drop the clone first: only its own chain goes away (also when that happens during unwinding)
    let clone = insts.pop().unwrap();
    if ending == 0 {
        let r = guarded(move || {
            let _owned = clone;
            std::panic::panic_any(crate::universe::UserPanic("c13-unwinding-drop"));
        });
        if r.is_ok() {
            return Err("the injected user panic did not propagate".into());
        }
    } else {
        drop(clone);
    }
    for id in &chain_ids[1] {
        if toks::drops(*id) != 1 {
            return Err(format!("value {id} of the dropped clone has drop count {}", toks::drops(*id)));
        }
    }
    for id in chain_ids[0].iter().chain(shared_ids.iter()) {
        if toks::drops(*id) != 0 {
            return Err(format!(
                "value {id} (owned by the original / the shared state) was dropped when the clone went away"
            ));
        }
    }
    let original = insts.pop().unwrap();
    match ending {
        0 => {
            // switching verification off on an instance that has already lent values releases nothing
            let original = original.no_verify_in_drop();
            for id in chain_ids[0].iter().chain(shared_ids.iter()) {
                if toks::drops(*id) != 0 {
                    return Err(format!("value {id} lent by the original was dropped by no_verify_in_drop()"));
                }
            }
            drop(original)
        }
        1 => {
            let r = guarded(move || {
                let _owned = original;
                std::panic::panic_any(crate::universe::UserPanic("c13-unwinding-drop"));
            });
            if r.is_ok() {
                return Err("the injected user panic did not propagate".into());
            }
        }
        _ => drop(original),
    }
    for (id, i) in toks::all_infos().iter().enumerate() {
        if i.drops != 1 {
            return Err(format!("value {id} was dropped {} times in total", i.drops));
        }
    }
    Ok(())
}

/// Threads lending concurrently from one shared instance.
pub fn run_c13_threads(
    rng: &mut Rng,
    n_threads: usize,
    per_thread: usize,
    strategy: Option<Strategy>,
    steps_done: &mut u64,
) -> (Result<(), String>, crate::sched::ExecInfo) {
    toks::reset();
    let (original, _shared) = lending_mock();
    let results: Vec<Mutex<Option<Result<Vec<(usize, u32)>, String>>>> =
        (0..n_threads).map(|_| Mutex::new(None)).collect();
    let plans: Vec<Vec<LendOp>> = (0..n_threads)
        .map(|_| (0..per_thread).map(|_| *rng.pick(&SHARED_OPS)).collect())
        .collect();
    let barrier = std::sync::Barrier::new(n_threads);
    let free = strategy.is_none();
    let empty = HashSet::new();
    let mut bodies: Vec<Box<dyn FnOnce() + Send + '_>> = vec![];
    for tid in 0..n_threads {
        let u = &original;
        let plan = &plans[tid];
        let slot = &results[tid];
        let barrier = &barrier;
        let empty = &empty;
        bodies.push(Box::new(move || {
            if free {
                barrier.wait();
            }
            let mut steps = 0u64;
            let r = guarded(|| shared_phase_collect(u, plan, empty, &mut steps));
            *slot.lock().unwrap() = Some(match r {
                Ok(r) => r,
                Err(o) => Err(format!("panic {o:?}")),
            });
        }));
    }
    let exec = match strategy {
        Some(s) => run_controlled(bodies, s),
        None => {
            std::thread::scope(|scope| {
                for b in bodies {
                    scope.spawn(b);
                }
            });
            Default::default()
        }
    };
    *steps_done += (n_threads * per_thread) as u64;
    // after join: every chain value lent by any thread is distinct and alive
    let mut addrs = HashSet::new();
    let mut all_ids = vec![];
    for slot in &results {
        match slot.lock().unwrap().take() {
            Some(Ok(list)) => {
                for (addr, id) in list {
                    if !addrs.insert(addr) {
                        return (Err(format!("value {id} shares its address with another lent value")), exec);
                    }
                    if toks::drops(id) != 0 {
                        return (Err(format!("value {id} dropped before its instance")), exec);
                    }
                    all_ids.push(id);
                }
            }
            Some(Err(e)) => return (Err(e), exec),
            None => return (Err("thread produced no result".into()), exec),
        }
    }
    drop(original);
    for (id, i) in toks::all_infos().iter().enumerate() {
        if i.drops != 1 {
            return (Err(format!("value {id} was dropped {} times in total", i.drops)), exec);
        }
    }
    (Ok(()), exec)
}

/// like `shared_phase` but returns (address, id) of the chain values for the cross-thread check
fn shared_phase_collect(
    u: &Unimock,
    ops: &[LendOp],
    released: &HashSet<u32>,
    steps: &mut u64,
) -> Result<Vec<(usize, u32)>, String> {
    let mut live: Vec<LiveRef<'_>> = vec![];
    for (i, op) in ops.iter().enumerate() {
        match op {
            LendOp::MakeRefVal => {
                let v = Val::new();
                let id = v.id;
                let r = u.make_ref(v);
                live.push(LiveRef::Val { r, addr: r as *const Val as usize, id, chain: true });
            }
            LendOp::MakeRefU64 => {
                let v = 0xB000_0000u64 + i as u64;
                let r = u.make_ref(v);
                live.push(LiveRef::U64 { r, addr: r as *const u64 as usize, v });
            }
            LendOp::MakeRefString => {
                let v = format!("string #{i}");
                let r: &String = u.make_ref(v.clone());
                live.push(LiveRef::Str { r: r.as_str(), addr: r.as_ptr() as usize, v });
            }
            LendOp::CallAnswerRef => {
                let r = u.l_ref(1);
                live.push(LiveRef::Val { r, addr: r as *const Val as usize, id: r.id, chain: true });
            }
            LendOp::CallViaDefault => {
                let r = u.l_default(1);
                live.push(LiveRef::Val { r, addr: r as *const Val as usize, id: r.id, chain: true });
            }
            LendOp::CallReturnsRef => {
                let r = u.l_ref(0);
                live.push(LiveRef::Val { r, addr: r as *const Val as usize, id: r.id, chain: false });
            }
            LendOp::CallReturnsOpt => match u.l_opt(0) {
                Some(r) => live.push(LiveRef::Val { r, addr: r as *const Val as usize, id: r.id, chain: false }),
                None => return Err("l_opt returned None".into()),
            },
            LendOp::CallReturnsStr => {
                let r = u.l_str(0);
                live.push(LiveRef::Str { r, addr: r.as_ptr() as usize, v: "shared string".into() });
            }
            _ => unreachable!(),
        }
        *steps += 1;
        validate(&live, released).map_err(|e| format!("after step {i} ({op:?}): {e}"))?;
    }
    Ok(live
        .iter()
        .filter_map(|l| match l {
            LiveRef::Val { addr, id, chain: true, .. } => Some((*addr, *id)),
            _ => None,
        })
        .collect())
}

/// A `then()` series of borrowed returns: every call is lent *its own* value of the series, also when the calls
/// come from several threads (each configured value is lent to exactly one call).
pub fn run_c13_series(
    n_threads: usize,
    per_thread: usize,
    strategy: Option<Strategy>,
) -> (Result<(), String>, crate::sched::ExecInfo) {
    toks::reset();
    let total = n_threads * per_thread;
    let vals: Vec<Val> = (0..total).map(|_| Val::new()).collect();
    let ids: Vec<u32> = vals.iter().map(|v| v.id).collect();
    // l_ref(x).returns(v0).once().then().returns(v1).once() ... built through the real builder
    let mut it = vals.into_iter();
    let first = it.next().unwrap();
    let mut q = LMock::l_ref.each_call(matching!(_)).returns(first).once();
    for v in it {
        q = q.then().returns(v).once();
    }
    let u = Unimock::new(q).no_verify_in_drop();
    let got: Vec<Mutex<Vec<(u32, bool, usize)>>> = (0..n_threads).map(|_| Mutex::new(vec![])).collect();
    let barrier = std::sync::Barrier::new(n_threads);
    let free = strategy.is_none();
    let mut bodies: Vec<Box<dyn FnOnce() + Send + '_>> = vec![];
    for tid in 0..n_threads {
        let u = &u;
        let slot = &got[tid];
        let barrier = &barrier;
        bodies.push(Box::new(move || {
            if free {
                barrier.wait();
            }
            let mut refs: Vec<&Val> = vec![];
            for _ in 0..per_thread {
                if let Ok(r) = guarded(|| u.l_ref(1)) {
                    refs.push(r);
                }
            }
            // re-validated at the end of the thread: still the same, intact values
            *slot.lock().unwrap() = refs
                .iter()
                .map(|r| (r.id, r.intact(), *r as *const Val as usize))
                .collect();
        }));
    }
    let exec = match strategy {
        Some(s) => run_controlled(bodies, s),
        None => {
            std::thread::scope(|scope| {
                for b in bodies {
                    scope.spawn(b);
                }
            });
            Default::default()
        }
    };
    let mut seen: Vec<u32> = vec![];
    let mut addrs = HashSet::new();
    for slot in &got {
        for (id, intact, addr) in slot.lock().unwrap().iter() {
            if !intact {
                return (Err(format!("lent value {id} is damaged")), exec);
            }
            if !addrs.insert(*addr) {
                return (
                    Err(format!("two calls were lent the same stored value (id {id}): a call did not get its own value of the series")),
                    exec,
                );
            }
            seen.push(*id);
        }
    }
    seen.sort();
    let mut want = ids.clone();
    want.sort();
    if seen != want {
        return (
            Err(format!("values lent {seen:?}, the series configured {want:?} (each exactly once)")),
            exec,
        );
    }
    if ids.iter().any(|id| toks::drops(*id) != 0) {
        return (Err("a value of the series was dropped while the mock is alive".into()), exec);
    }
    // every stage of the series was consumed exactly once: finished by drop or by an explicit verify(), the stored
    // values go away with the instance, each exactly once
    if total % 2 == 0 {
        drop(u);
    } else if let Err(o) = guarded(move || u.no_verify_in_drop().verify()) {
        return (Err(format!("verify() after the whole series was consumed failed: {o:?}")), exec);
    }
    if let Some(id) = ids.iter().find(|id| toks::drops(**id) != 1) {
        return (
            Err(format!("value {id} of the series has drop count {} after the instance is gone", toks::drops(*id))),
            exec,
        );
    }
    (Ok(()), exec)
}

/// A very long chain must be dropped without recursion.
pub fn run_c13_bigchain(n: usize) -> Result<(), String> {
    toks::reset();
    let u = Unimock::new(()).no_verify_in_drop();
    let first = u.make_ref(Val::new());
    for _ in 1..n {
        u.make_ref(Val::new());
    }
    if !first.intact() || first.id != 0 {
        return Err("first value damaged after many pushes".into());
    }
    drop(u);
    let infos = toks::all_infos();
    if infos.len() != n || infos.iter().any(|i| i.drops != 1) {
        return Err(format!("{} of {n} values dropped exactly once", infos.iter().filter(|i| i.drops == 1).count()));
    }
    run_c13_zst()?;
    run_c13_static_stress(8, 20_000)
}

/// `-> &'static T` and parameter-borrowed returns configured as *repeatable* (`each_call(..).returns(r)`), requested
/// by several threads through one shared instance: every request is answered, with the configured reference.
#[unimock::unimock(api = SMock)]
pub trait StaticLend {
    fn s_static(&self, x: u32) -> &'static u32;
    fn s_param<'a>(&self, x: &'a u32) -> &'a u32;
}

pub fn run_c13_static_stress(n_threads: usize, per_thread: usize) -> Result<(), String> {
    static TARGET: u32 = 4711;
    let u = Unimock::new((
        SMock::s_static.each_call(matching!(_)).returns(&TARGET),
        SMock::s_param.each_call(matching!(_)).returns(&TARGET),
    ))
    .no_verify_in_drop();
    let barrier = std::sync::Barrier::new(n_threads);
    let refused = std::sync::atomic::AtomicUsize::new(0);
    let wrong = std::sync::atomic::AtomicUsize::new(0);
    std::thread::scope(|scope| {
        for tid in 0..n_threads {
            let (u, barrier, refused, wrong) = (&u, &barrier, &refused, &wrong);
            scope.spawn(move || {
                barrier.wait();
                let arg = tid as u32;
                for i in 0..per_thread {
                    let r = if i % 2 == 0 { guarded(|| u.s_static(1)) } else { guarded(|| u.s_param(&arg)) };
                    match r {
                        Ok(r) if std::ptr::eq(r, &TARGET) && *r == 4711 => {}
                        Ok(_) => {
                            wrong.fetch_add(1, std::sync::atomic::Ordering::SeqCst);
                        }
                        Err(_) => {
                            refused.fetch_add(1, std::sync::atomic::Ordering::SeqCst);
                        }
                    }
                }
            });
        }
    });
    let (refused, wrong) = (refused.into_inner(), wrong.into_inner());
    if refused != 0 || wrong != 0 {
        return Err(format!(
            "repeatable reference returns under {n_threads} threads x {per_thread} calls: {refused} requests refused, {wrong} answered with another reference"
        ));
    }
    Ok(())
}

/// Zero-sized values with a destructor (marker / guard types) are lent values like any other: dropped exactly once,
/// not before their owner, also when `make_mut` releases earlier ones.
static ZST_DROPS: std::sync::atomic::AtomicUsize = std::sync::atomic::AtomicUsize::new(0);
struct ZstGuard;
impl Drop for ZstGuard {
    fn drop(&mut self) {
        ZST_DROPS.fetch_add(1, std::sync::atomic::Ordering::SeqCst);
    }
}

pub fn run_c13_zst() -> Result<(), String> {
    use std::sync::atomic::Ordering::SeqCst;
    ZST_DROPS.store(0, SeqCst);
    let mut u = Unimock::new(()).no_verify_in_drop();
    let c = u.clone();
    let _a: &ZstGuard = u.make_ref(ZstGuard);
    let _b: &ZstGuard = u.make_ref(ZstGuard);
    let _c: &ZstGuard = c.make_ref(ZstGuard);
    let _v: &Val = u.make_ref(Val::new());
    if ZST_DROPS.load(SeqCst) != 0 {
        return Err("a zero-sized lent value was dropped while its owner is alive".into());
    }
    drop(c);
    if ZST_DROPS.load(SeqCst) != 1 {
        return Err(format!("dropping a clone that lent one zero-sized value dropped {} of them", ZST_DROPS.load(SeqCst)));
    }
    let _m: &mut ZstGuard = u.make_mut(ZstGuard);
    if ZST_DROPS.load(SeqCst) != 3 {
        return Err(format!("make_mut must release the two earlier zero-sized values of the instance; {} dropped in total", ZST_DROPS.load(SeqCst)));
    }
    drop(u);
    if ZST_DROPS.load(SeqCst) != 4 {
        return Err(format!("{} of 4 zero-sized lent values dropped exactly once", ZST_DROPS.load(SeqCst)));
    }
    Ok(())
}

// ------------------------------------------------------------------------------------------------
// worker entry points

fn emit(what: &str, seed: u64, worker: u64, index: u64, d: &Discrepancy, case: &str, schedule: &str) {
    let line = Obj::new()
        .str("what", what)
        .raw("tags", arr(d.props.iter().map(|p| esc(p))))
        .num("seed", seed)
        .num("worker", worker)
        .num("index", index)
        .str("at", &d.at)
        .str("expected", &d.expected)
        .str("observed", &d.observed)
        .str("case", case)
        .str("schedule", schedule)
        .build();
    println!("VIOLATION_CASE {line}");
}

fn sched_str(t: &[u8]) -> String {
    t.iter().map(|x| x.to_string()).collect::<Vec<_>>().join("")
}

pub fn run_child(what: &str, args: &[String], acc: &mut Acc) -> bool {
    let seed: u64 = arg(args, "--seed").unwrap_or("1".into()).parse().unwrap();
    let worker: u64 = arg(args, "--worker").unwrap_or("0".into()).parse().unwrap();
    let cases: u64 = arg(args, "--cases").unwrap_or("1".into()).parse().unwrap();
    match what {
        "c12" => {
            install_hook();
            let dfs_cap: usize = arg(args, "--dfs-cap").unwrap_or("2000".into()).parse().unwrap();
            acc.executions += 1;
            acc.bump("norender_scenarios");
            if let Err(e) = run_c12_norender() {
                acc.violations += 1;
                let d = Discrepancy {
                    props: vec!["C12", "C02", "C11"],
                    at: "request with an argument whose Debug impl panics".into(),
                    expected: "the value is handed to the (only) caller; Debug is not needed for a successful call".into(),
                    observed: e,
                };
                emit("c12", seed, worker, 0, &d, "t_arg(NoRender) on some_call/next_call .returns(v)", "sequential");
            }
            for index in 0..cases {
                let mut rng = Rng::new(mix3(seed ^ 0xC12, worker, index));
                let case = gen_c12(&mut rng, 4, if index % 2 == 0 { 2 } else { 3 });
                acc.cases += 1;
                acc.case_hashes.insert(case.hash64());
                if acc.samples.len() < 3 && index % 5 == 2 {
                    acc.samples.push(format!("{case}"));
                }
                let total: usize = case.threads.iter().map(|t| t.1).sum();
                acc.bump(&format!("requests_{}", total.min(7)));
                acc.bump(&format!("shape_{:?}", case.shape));
                acc.bump(&format!("threads_{}", case.threads.len()));
                let mut judge = |strategy: Strategy, acc: &mut Acc| -> Vec<(u8, u8)> {
                    let trace = run_c12(&case, Some(strategy));
                    acc.executions += 1;
                    acc.schedules.insert(fnv(&trace.exec.trace) ^ case.hash64());
                    for (f, l, k) in &trace.exec.sites {
                        let short = f.rsplit("/src/").next().unwrap_or(f);
                        acc.sites.insert(format!("{short}:{l}:{k}"));
                    }
                    for (_, r) in &trace.reqs {
                        match r {
                            Req::Delivered(_) => acc.bump("req_delivered"),
                            Req::Panic(_) => acc.bump("req_panic"),
                            Req::Other(_) => acc.bump("req_other"),
                        }
                    }
                    if trace.exec.deadlock {
                        if acc.inconclusive.len() < 5 {
                            acc.inconclusive.push(format!("c12 case {worker}:{index}: scheduler deadlock/watchdog"));
                        }
                    } else if let Some(d) = check_c12(&case, &trace) {
                        acc.violations += 1;
                        if acc.violations <= 5 {
                            emit("c12", seed, worker, index, &d, &format!("{case}"), &sched_str(&trace.exec.trace));
                        }
                    }
                    trace.exec.choices
                };
                if total <= 4 {
                    let mut prefix = vec![];
                    let mut n = 0;
                    let mut exhausted = false;
                    loop {
                        let choices = judge(Strategy::Dfs { prefix: prefix.clone() }, acc);
                        n += 1;
                        match next_dfs_prefix(&choices) {
                            Some(p) => prefix = p,
                            None => {
                                exhausted = true;
                                break;
                            }
                        }
                        if n >= dfs_cap {
                            break;
                        }
                    }
                    if exhausted {
                        acc.exhaustive_cases += 1;
                        acc.exhaustive_schedules += n as u64;
                    }
                } else {
                    for e in 0..24 {
                        let s = if e % 2 == 0 {
                            Strategy::Random(Rng::new(rng.next_u64()))
                        } else {
                            pct_strategy(&mut rng, case.threads.len(), 1 + e % 3, 6 * total)
                        };
                        judge(s, acc);
                    }
                }
            }
            true
        }
        "c12-stress" => {
            let reps: usize = arg(args, "--reps").unwrap_or("50".into()).parse().unwrap();
            for index in 0..cases {
                let mut rng = Rng::new(mix3(seed ^ 0x12E55, worker, index));
                let mut case = gen_c12(&mut rng, 8, 4);
                // many threads racing for the same value
                while case.threads.len() < 6 {
                    case.threads.push((rng.chance(1, 2), 1 + rng.below(3), rng.chance(1, 2)));
                }
                acc.cases += 1;
                acc.case_hashes.insert(case.hash64());
                if acc.samples.len() < 2 {
                    acc.samples.push(format!("{case}"));
                }
                for _ in 0..reps {
                    let trace = run_c12(&case, None);
                    acc.executions += 1;
                    acc.add("stress_requests", trace.reqs.len() as u64);
                    if let Some(d) = check_c12(&case, &trace) {
                        acc.violations += 1;
                        if acc.violations <= 5 {
                            emit("c12-stress", seed, worker, index, &d, &format!("{case}"), "free-running");
                        }
                        break;
                    }
                }
            }
            true
        }
        "c13" => {
            let n_ops: usize = arg(args, "--ops").unwrap_or("40".into()).parse().unwrap();
            for index in 0..cases {
                let mut rng = Rng::new(mix3(seed ^ 0xC13, worker, index));
                acc.cases += 1;
                acc.case_hashes.insert(mix3(seed, worker, index));
                let mut steps = 0;
                let r = guarded(|| run_c13_seq(&mut rng, n_ops, &mut steps));
                acc.executions += 1;
                acc.add("lend_steps", steps);
                let err = match r {
                    Ok(Ok(())) => None,
                    Ok(Err(e)) => Some(e),
                    Err(o) => Some(format!("panic: {o:?}")),
                };
                if let Some(e) = err {
                    acc.violations += 1;
                    if acc.violations <= 5 {
                        let d = Discrepancy {
                            props: vec!["C13"],
                            at: "sequence of make_ref / make_mut / borrowed-return calls".into(),
                            expected: "every lent reference keeps its address and contents; values dropped once, not before their owner".into(),
                            observed: e,
                        };
                        emit("c13", seed, worker, index, &d, &format!("seq case {worker}:{index} ops<={n_ops}"), "sequential");
                    }
                }
            }
            if acc.samples.is_empty() {
                let mut rng = Rng::new(mix3(seed ^ 0xC13, worker, 0));
                acc.samples.push(format!("ops of one phase: {:?}", gen_lend_ops(&mut rng, 12)));
            }
            true
        }
        "c13-threads" | "c13-threads-stress" => {
            let controlled = what == "c13-threads";
            if controlled {
                install_hook();
            }
            let per_thread: usize = arg(args, "--ops").unwrap_or(if controlled { "3" } else { "200" }.into()).parse().unwrap();
            let max_threads: usize = arg(args, "--threads").unwrap_or(if controlled { "3" } else { "8" }.into()).parse().unwrap();
            for index in 0..cases {
                let mut rng = Rng::new(mix3(seed ^ 0x7C13, worker, index));
                let n_threads = rng.range(2, max_threads);
                acc.cases += 1;
                acc.case_hashes.insert(mix3(seed ^ 9, worker, index));
                let execs = if controlled { 40 } else { 5 };
                for e in 0..execs {
                    let mut case_rng = Rng::new(mix3(seed ^ 0x7C13, worker, index) ^ 0x55);
                    let strategy = if controlled {
                        Some(if e % 2 == 0 {
                            Strategy::Random(Rng::new(rng.next_u64()))
                        } else {
                            pct_strategy(&mut rng, n_threads, 1 + e % 3, 10 * per_thread)
                        })
                    } else {
                        None
                    };
                    let mut steps = 0;
                    let (r, exec) = run_c13_threads(&mut case_rng, n_threads, per_thread, strategy, &mut steps);
                    acc.executions += 1;
                    acc.add("lend_steps", steps);
                    acc.schedules.insert(fnv(&exec.trace) ^ mix3(seed, worker, index));
                    for (f, l, k) in &exec.sites {
                        let short = f.rsplit("/src/").next().unwrap_or(f);
                        acc.sites.insert(format!("{short}:{l}:{k}"));
                    }
                    if exec.deadlock {
                        if acc.inconclusive.len() < 5 {
                            acc.inconclusive.push(format!("c13 case {worker}:{index}: scheduler deadlock/watchdog"));
                        }
                        continue;
                    }
                    if let Err(e) = r {
                        acc.violations += 1;
                        if acc.violations <= 5 {
                            let d = Discrepancy {
                                props: vec!["C13"],
                                at: format!("{n_threads} threads lending from one shared instance"),
                                expected: "every lent reference keeps its address and contents; all lent values distinct; dropped once".into(),
                                observed: e,
                            };
                            emit(what, seed, worker, index, &d, &format!("threads case {worker}:{index}"), &sched_str(&exec.trace));
                        }
                        break;
                    }
                }
            }
            if acc.samples.is_empty() {
                acc.samples.push(format!("{max_threads} threads x {per_thread} lending operations drawn from {SHARED_OPS:?}"));
            }
            true
        }
        "c13-series" | "c13-series-stress" => {
            let controlled = what == "c13-series";
            if controlled {
                install_hook();
            }
            for index in 0..cases {
                let mut rng = Rng::new(mix3(seed ^ 0x5E13, worker, index));
                let n_threads = if controlled { rng.range(2, 3) } else { rng.range(2, 8) };
                let per = if controlled { rng.range(1, 2) } else { rng.range(1, 12) };
                acc.cases += 1;
                acc.case_hashes.insert(mix3(seed ^ 0x5E13, worker, index));
                let execs = if controlled { 60 } else { 40 };
                for e in 0..execs {
                    let strategy = if controlled {
                        Some(if e % 2 == 0 {
                            Strategy::Random(Rng::new(rng.next_u64()))
                        } else {
                            pct_strategy(&mut rng, n_threads, 1 + e % 3, 6 * per * n_threads)
                        })
                    } else {
                        None
                    };
                    let (r, exec) = run_c13_series(n_threads, per, strategy);
                    acc.executions += 1;
                    acc.add("series_calls", (n_threads * per) as u64);
                    acc.schedules.insert(fnv(&exec.trace) ^ mix3(seed, worker, index));
                    for (f, l, k) in &exec.sites {
                        let short = f.rsplit("/src/").next().unwrap_or(f);
                        acc.sites.insert(format!("{short}:{l}:{k}"));
                    }
                    if exec.deadlock {
                        if acc.inconclusive.len() < 5 {
                            acc.inconclusive.push(format!("c13-series case {worker}:{index}: scheduler deadlock/watchdog"));
                        }
                        continue;
                    }
                    if let Err(e) = r {
                        acc.violations += 1;
                        if acc.violations <= 5 {
                            let d = Discrepancy {
                                props: vec!["C13", "C10", "C02"],
                                at: format!("{n_threads} threads x {per} calls on a then()-series of borrowed returns"),
                                expected: "every call is lent its own value of the series; all intact, none dropped".into(),
                                observed: e,
                            };
                            emit(what, seed, worker, index, &d, &format!("series case {worker}:{index}"), &sched_str(&exec.trace));
                        }
                        break;
                    }
                }
            }
            if acc.samples.is_empty() {
                acc.samples.push("l_ref.each_call(_).returns(v0).once().then().returns(v1).once()... ; N threads call l_ref".into());
            }
            true
        }
        "c08-late-error" => {
            // a mock error induced through a clone *while the original is already being torn down* (by the
            // destructor of a value the original lent) is still an error of this mock: verification must report it
            struct Bomb(Option<Unimock>);
            impl Drop for Bomb {
                fn drop(&mut self) {
                    if let Some(c) = self.0.take() {
                        let _ = guarded(|| c.l_opt(1).is_some());
                    }
                }
            }
            for index in 0..cases {
                acc.cases += 1;
                acc.executions += 1;
                acc.case_hashes.insert(mix3(seed, worker, index));
                let u = Unimock::new(LMock::l_str.each_call(matching!(_)).returns("x".to_string()));
                let _ = u.l_str(0).len();
                let _b: &Bomb = u.make_ref(Bomb(Some(u.clone())));
                if index % 3 == 1 {
                    let _b2: &Bomb = u.make_ref(Bomb(Some(u.clone())));
                }
                if index % 4 >= 2 {
                    // and one whose failing call happens while its thread unwinds from a user panic (a guard object
                    // that talks to the mock in its destructor): still a mock-induced panic, still remembered
                    let c = u.clone();
                    let _ = guarded(move || {
                        let _bomb = Bomb(Some(c));
                        std::panic::panic_any(crate::universe::UserPanic("c08-unwinding"));
                    });
                    acc.bump("late_errors_unwinding");
                }
                let r = if index % 2 == 0 { guarded(move || drop(u)) } else { guarded(move || u.verify()) };
                let want_n = 1 + usize::from(index % 3 == 1) + usize::from(index % 4 >= 2);
                let ok = matches!(&r, Err(Obs::PanicString(m)) if m.contains("L::l_opt") && m.contains("No mock implementation")
                    && m.matches("L::l_opt(1): No mock implementation").count() == want_n);
                acc.bump("late_errors");
                if !ok {
                    acc.violations += 1;
                    if acc.violations <= 5 {
                        let d = Discrepancy {
                            props: vec!["C08"],
                            at: "verification of an original whose lent value's destructor makes a failing call through a clone".into(),
                            expected: format!("failure containing the recorded error `L::l_opt(1): No mock implementation found` {want_n} time(s)"),
                            observed: format!("{r:?}"),
                        };
                        emit(what, seed, worker, index, &d, "make_ref(Bomb(clone)); drop / verify()", "sequential");
                    }
                }
            }
            if acc.samples.is_empty() {
                acc.samples.push("u.make_ref(Bomb(u.clone())) where Bomb::drop calls an unmentioned method on its clone (caught); then drop(u) / u.verify()".into());
            }
            true
        }
        "c15-helper-race" => {
            // several threads share one fresh instance by reference and make their *first* delegated `&self` call
            // at the same moment: the internal delegation helper is created once, every default body runs against
            // the same mock, nobody panics
            let threads = 8;
            for index in 0..cases {
                toks::reset();
                let (u, shared_ids) = lending_mock();
                let barrier = std::sync::Barrier::new(threads);
                let results: Vec<Result<u32, Obs>> = std::thread::scope(|scope| {
                    let hs: Vec<_> = (0..threads)
                        .map(|_| {
                            let (u, barrier) = (&u, &barrier);
                            scope.spawn(move || {
                                barrier.wait();
                                guarded(|| u.l_default(0).id)
                            })
                        })
                        .collect();
                    hs.into_iter().map(|h| h.join().unwrap_or(Err(Obs::PanicOther))).collect()
                });
                acc.cases += 1;
                acc.executions += 1;
                acc.case_hashes.insert(mix3(seed, worker, index));
                acc.add("delegated_calls", threads as u64);
                let bad: Vec<String> = results
                    .iter()
                    .filter(|r| !matches!(r, Ok(id) if *id == shared_ids[0]))
                    .map(|r| format!("{r:?}"))
                    .collect();
                drop(u);
                if !bad.is_empty() {
                    acc.violations += 1;
                    if acc.violations <= 5 {
                        let d = Discrepancy {
                            props: vec!["C15", "C10"],
                            at: format!("{threads} threads making their first delegated call on one shared instance"),
                            expected: format!("every call returns the shared value {}", shared_ids[0]),
                            observed: bad.join("; "),
                        };
                        emit(what, seed, worker, index, &d, "l_default(0) x 8 threads, fresh mock", "free-running");
                    }
                }
            }
            if acc.samples.is_empty() {
                acc.samples.push("fresh mock; 8 threads behind a barrier call the provided method l_default(0) through &Unimock".into());
            }
            true
        }
        "c13-bigchain" => {
            let n: usize = arg(args, "--len").unwrap_or("100000".into()).parse().unwrap();
            acc.cases += 1;
            acc.executions += 1;
            acc.case_hashes.insert(n as u64);
            acc.add("chain_length", n as u64);
            // on a thread with a small stack (256 KiB): releasing a long chain must not need stack per lent value
            let r = std::thread::Builder::new()
                .stack_size(256 * 1024)
                .spawn(move || run_c13_bigchain(n))
                .expect("spawn")
                .join()
                .unwrap_or_else(|_| Err("the thread releasing the chain panicked".into()));
            if r.is_ok() {
                // (the same stage ends with the concurrent requests of repeatable reference returns)
                acc.add("static_ref_requests_answered", 8 * 20_000);
            }
            if let Err(e) = r {
                acc.violations += 1;
                let d = Discrepancy {
                    props: vec!["C13"],
                    at: format!("dropping an instance that lent {n} values"),
                    expected: "all values dropped exactly once".into(),
                    observed: e,
                };
                emit(what, seed, worker, 0, &d, &format!("chain of {n}"), "sequential");
            }
            true
        }
        _ => false,
    }
}
