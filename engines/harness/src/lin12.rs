//! C12 / C13 workloads for the sched engine (filled in below).
use crate::acc::Acc;

pub fn run_child(_what: &str, _args: &[String], _acc: &mut Acc) -> bool {
    false
}
