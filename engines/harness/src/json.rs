//! Minimal JSON writer (no dependencies).

use std::fmt::Write;

pub fn esc(s: &str) -> String {
    let mut out = String::with_capacity(s.len() + 2);
    out.push('"');
    for c in s.chars() {
        match c {
            '"' => out.push_str("\\\""),
            '\\' => out.push_str("\\\\"),
            '\n' => out.push_str("\\n"),
            '\r' => out.push_str("\\r"),
            '\t' => out.push_str("\\t"),
            c if (c as u32) < 0x20 => {
                let _ = write!(out, "\\u{:04x}", c as u32);
            }
            c => out.push(c),
        }
    }
    out.push('"');
    out
}

/// A JSON object under construction
#[derive(Default, Clone)]
pub struct Obj(Vec<(String, String)>);

impl Obj {
    pub fn new() -> Self {
        Obj(vec![])
    }
    pub fn str(mut self, k: &str, v: &str) -> Self {
        self.0.push((k.into(), esc(v)));
        self
    }
    pub fn num(mut self, k: &str, v: impl std::fmt::Display) -> Self {
        self.0.push((k.into(), v.to_string()));
        self
    }
    pub fn boolean(mut self, k: &str, v: bool) -> Self {
        self.0.push((k.into(), v.to_string()));
        self
    }
    pub fn raw(mut self, k: &str, v: String) -> Self {
        self.0.push((k.into(), v));
        self
    }
    pub fn build(&self) -> String {
        let mut s = String::from("{");
        for (i, (k, v)) in self.0.iter().enumerate() {
            if i > 0 {
                s.push(',');
            }
            s.push_str(&esc(k));
            s.push(':');
            s.push_str(v);
        }
        s.push('}');
        s
    }
}

pub fn arr(items: impl IntoIterator<Item = String>) -> String {
    let mut s = String::from("[");
    for (i, it) in items.into_iter().enumerate() {
        if i > 0 {
            s.push(',');
        }
        s.push_str(&it);
    }
    s.push(']');
    s
}

pub fn map_counts<K: std::fmt::Display>(items: impl IntoIterator<Item = (K, u64)>) -> String {
    let mut o = Obj::new();
    for (k, v) in items {
        o = o.num(&k.to_string(), v);
    }
    o.build()
}
