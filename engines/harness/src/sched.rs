//! A controlled (token passing) scheduler over OS threads, driven by the H3 yield points of unimock.
//!
//! Only one managed thread runs at a time, so every execution is a sequentially consistent interleaving at the
//! granularity of the atomic operations, lock acquisitions and value-chain insertions the runtime performs.
//! The scheduler decides, at every yield point, which thread runs next: uniformly at random, by PCT priorities,
//! or following a depth-first enumeration with a replayable choice prefix.

use std::cell::Cell;
use std::collections::{BTreeSet, HashMap};
use std::panic::Location;
use std::sync::{Arc, Condvar, Mutex, MutexGuard};
use std::time::Duration;

use unimock::verif::Site;

use crate::prng::Rng;

#[derive(Clone, Debug)]
pub enum Strategy {
    Random(Rng),
    /// PCT: random priorities, `change_at` = steps at which the running thread's priority drops
    Pct {
        rng: Rng,
        priorities: Vec<u32>,
        change_at: Vec<usize>,
    },
    /// follow the prefix, then always take the first runnable thread
    Dfs { prefix: Vec<u8> },
}

#[derive(Clone, Copy, Debug, PartialEq, Eq)]
enum TState {
    Runnable,
    WantLock(usize),
    Done,
}

struct Inner {
    states: Vec<TState>,
    current: Option<usize>,
    held: HashMap<usize, usize>,
    strategy: Strategy,
    /// thread chosen at every decision point
    trace: Vec<u8>,
    /// (index chosen among the runnable threads, number of runnable threads)
    choices: Vec<(u8, u8)>,
    sites: BTreeSet<(String, u32, &'static str)>,
    steps: usize,
    deadlock: bool,
    abort: bool,
}

pub struct Sched {
    inner: Mutex<Inner>,
    cv: Condvar,
}

thread_local! {
    static TID: Cell<Option<usize>> = const { Cell::new(None) };
}

static CURRENT: Mutex<Option<Arc<Sched>>> = Mutex::new(None);

fn current() -> Option<Arc<Sched>> {
    CURRENT.lock().unwrap_or_else(|e| e.into_inner()).clone()
}

fn site_name(site: &Site) -> &'static str {
    match site {
        Site::AtomicLoad => "atomic_load",
        Site::AtomicStore => "atomic_store",
        Site::AtomicSwap => "atomic_swap",
        Site::AtomicFetchAdd => "atomic_fetch_add",
        Site::AtomicFetchSub => "atomic_fetch_sub",
        Site::AtomicCompareExchange => "atomic_cas",
        Site::AtomicFetchUpdate => "atomic_fetch_update",
        Site::LockWant(_) => "lock_want",
        Site::LockReleased(_) => "lock_released",
        Site::ChainInsert => "chain_insert",
    }
}

/// The callback installed into unimock (`unimock::verif::install`).
pub fn hook(site: Site, loc: &'static Location<'static>) {
    let Some(tid) = TID.with(|t| t.get()) else {
        return;
    };
    if let Some(s) = current() {
        s.on_site(tid, site, loc);
    }
}

pub fn install_hook() {
    let _ = unimock::verif::install(hook);
}

#[derive(Clone, Debug, Default)]
pub struct ExecInfo {
    pub trace: Vec<u8>,
    pub choices: Vec<(u8, u8)>,
    pub sites: BTreeSet<(String, u32, &'static str)>,
    pub steps: usize,
    pub deadlock: bool,
}

impl Sched {
    fn lock(&self) -> MutexGuard<'_, Inner> {
        self.inner.lock().unwrap_or_else(|e| e.into_inner())
    }

    fn runnable(inner: &Inner) -> Vec<usize> {
        (0..inner.states.len())
            .filter(|&t| match inner.states[t] {
                TState::Runnable => true,
                TState::WantLock(a) => inner.held.get(&a).map(|h| *h == t).unwrap_or(true),
                TState::Done => false,
            })
            .collect()
    }

    /// choose who runs next; called with the lock held
    fn pick_next(inner: &mut Inner, from: Option<usize>) {
        let runnable = Self::runnable(inner);
        if runnable.is_empty() {
            if inner.states.iter().any(|s| *s != TState::Done) {
                inner.deadlock = true;
                inner.abort = true;
            }
            inner.current = None;
            return;
        }
        let step = inner.steps;
        inner.steps += 1;
        let idx = match &mut inner.strategy {
            Strategy::Random(rng) => rng.below(runnable.len()),
            Strategy::Pct {
                rng: _,
                priorities,
                change_at,
            } => {
                if change_at.contains(&step) {
                    if let Some(f) = from {
                        // demote the running thread below everything else
                        let min = priorities.iter().copied().min().unwrap_or(0);
                        priorities[f] = min.saturating_sub(1);
                    }
                }
                let mut best = 0;
                for (i, t) in runnable.iter().enumerate() {
                    if priorities[*t] > priorities[runnable[best]] {
                        best = i;
                    }
                }
                best
            }
            Strategy::Dfs { prefix } => {
                let pos = inner.choices.len();
                if pos < prefix.len() {
                    (prefix[pos] as usize).min(runnable.len() - 1)
                } else {
                    0
                }
            }
        };
        inner.choices.push((idx as u8, runnable.len() as u8));
        let chosen = runnable[idx];
        inner.trace.push(chosen as u8);
        inner.current = Some(chosen);
    }

    fn wait_for_turn<'a>(&'a self, mut inner: MutexGuard<'a, Inner>, tid: usize) -> MutexGuard<'a, Inner> {
        while inner.current != Some(tid) && !inner.abort {
            let (g, timeout) = self
                .cv
                .wait_timeout(inner, Duration::from_secs(10))
                .unwrap_or_else(|e| e.into_inner());
            inner = g;
            if timeout.timed_out() && inner.current != Some(tid) {
                inner.deadlock = true;
                inner.abort = true;
                self.cv.notify_all();
            }
        }
        inner
    }

    fn on_site(&self, tid: usize, site: Site, loc: &'static Location<'static>) {
        let mut inner = self.lock();
        if inner.abort {
            return;
        }
        inner
            .sites
            .insert((loc.file().to_string(), loc.line(), site_name(&site)));
        match site {
            Site::LockReleased(a) => {
                if inner.held.get(&a) == Some(&tid) {
                    inner.held.remove(&a);
                }
                return;
            }
            Site::LockWant(a) => inner.states[tid] = TState::WantLock(a),
            _ => {}
        }
        Self::pick_next(&mut inner, Some(tid));
        self.cv.notify_all();
        inner = self.wait_for_turn(inner, tid);
        if let TState::WantLock(a) = inner.states[tid] {
            inner.held.insert(a, tid);
            inner.states[tid] = TState::Runnable;
        }
    }

    fn thread_begin(&self, tid: usize) {
        TID.with(|t| t.set(Some(tid)));
        let inner = self.lock();
        drop(self.wait_for_turn(inner, tid));
    }

    fn thread_end(&self, tid: usize) {
        TID.with(|t| t.set(None));
        let mut inner = self.lock();
        inner.states[tid] = TState::Done;
        // locks cannot be held here (LockScope is dropped), but be safe
        inner.held.retain(|_, h| *h != tid);
        if !inner.abort {
            Self::pick_next(&mut inner, None);
        }
        self.cv.notify_all();
    }
}

/// Run the bodies as managed threads under the strategy. Returns what the scheduler did.
pub fn run_controlled<'env>(
    bodies: Vec<Box<dyn FnOnce() + Send + 'env>>,
    strategy: Strategy,
) -> ExecInfo {
    let n = bodies.len();
    let sched = Arc::new(Sched {
        inner: Mutex::new(Inner {
            states: vec![TState::Runnable; n],
            current: None,
            held: HashMap::new(),
            strategy,
            trace: vec![],
            choices: vec![],
            sites: BTreeSet::new(),
            steps: 0,
            deadlock: false,
            abort: false,
        }),
        cv: Condvar::new(),
    });
    *CURRENT.lock().unwrap_or_else(|e| e.into_inner()) = Some(sched.clone());

    std::thread::scope(|scope| {
        for (tid, body) in bodies.into_iter().enumerate() {
            let sched = sched.clone();
            scope.spawn(move || {
                sched.thread_begin(tid);
                // the body must not unwind out (callers wrap calls in catch_unwind)
                let r = std::panic::catch_unwind(std::panic::AssertUnwindSafe(body));
                sched.thread_end(tid);
                if let Err(p) = r {
                    std::panic::resume_unwind(p);
                }
            });
        }
        // start: pick the first thread
        {
            let mut inner = sched.lock();
            Sched::pick_next(&mut inner, None);
            sched.cv.notify_all();
        }
    });

    *CURRENT.lock().unwrap_or_else(|e| e.into_inner()) = None;
    let inner = sched.lock();
    ExecInfo {
        trace: inner.trace.clone(),
        choices: inner.choices.clone(),
        sites: inner.sites.clone(),
        steps: inner.steps,
        deadlock: inner.deadlock,
    }
}

/// Next DFS prefix after an execution with the given choice log; None when the tree is exhausted.
pub fn next_dfs_prefix(choices: &[(u8, u8)]) -> Option<Vec<u8>> {
    let mut prefix: Vec<u8> = choices.iter().map(|c| c.0).collect();
    loop {
        let last = prefix.len().checked_sub(1)?;
        let (_, n) = choices[last];
        if prefix[last] + 1 < n {
            prefix[last] += 1;
            return Some(prefix);
        }
        prefix.pop();
    }
}

pub fn pct_strategy(rng: &mut Rng, n_threads: usize, depth: usize, expected_steps: usize) -> Strategy {
    let mut priorities: Vec<u32> = (0..n_threads as u32).map(|i| 1000 + i).collect();
    rng.shuffle(&mut priorities);
    let change_at = (0..depth)
        .map(|_| rng.below(expected_steps.max(1)))
        .collect();
    Strategy::Pct {
        rng: rng.clone(),
        priorities,
        change_at,
    }
}
