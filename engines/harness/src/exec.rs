//! Executes a case against the real unimock and records what was observed at the API boundary
//! (return value or panic payload of every call, panic/silence/ExitCode of every lifecycle operation,
//! the callback event log) plus the H2 snapshot at quiescent points.

use std::any::Any;
use std::panic::{catch_unwind, AssertUnwindSafe};

use unimock::verif::{snapshot, Snapshot};
use unimock::Unimock;

use crate::case::*;
use crate::universe::*;

#[derive(Clone, Debug, PartialEq, Eq)]
pub enum Obs {
    Value(u32),
    /// panic with a `String` payload (what `panic!("{msg}")` produces): unimock's call errors and verification text
    PanicString(String),
    /// panic with a `&'static str` payload: unimock's literal messages
    PanicStatic(String),
    /// injected user panic
    UserPanic(&'static str),
    /// any other payload
    PanicOther,
    /// operation completed without panicking and without a value
    Silent,
    /// `report()` returned this `ExitCode` (Debug rendering)
    Exit(String),
    /// The harness could not perform the operation (instance not alive): generator bug
    NotApplicable,
}

pub fn classify_payload(payload: Box<dyn Any + Send>) -> Obs {
    match payload.downcast::<String>() {
        Ok(s) => Obs::PanicString(*s),
        Err(payload) => match payload.downcast::<&'static str>() {
            Ok(s) => Obs::PanicStatic((*s).to_string()),
            Err(payload) => match payload.downcast::<UserPanic>() {
                Ok(u) => Obs::UserPanic(u.0),
                Err(_) => Obs::PanicOther,
            },
        },
    }
}

#[derive(Clone, Debug)]
pub struct OpObs {
    pub obs: Obs,
    pub events: Vec<Event>,
    /// snapshot of the shared state after the operation, if any instance is still alive
    pub snap: Option<Snapshot>,
}

#[derive(Clone, Debug)]
pub struct Trace {
    /// Err(message) if the constructor panicked
    pub build: Result<(), Obs>,
    pub snap0: Option<Snapshot>,
    pub ops: Vec<OpObs>,
    /// outcome of the implicit final teardown: all remaining clones dropped, then the original (if still alive)
    pub final_clone_drops: Vec<Obs>,
    pub final_original: Option<Obs>,
}

pub fn install_quiet_panic_hook() {
    std::panic::set_hook(Box::new(|_| {}));
}

struct Live {
    original: Option<Unimock>,
    clones: Vec<Option<Unimock>>,
}

impl Live {
    fn get(&self, inst: Inst) -> Option<&Unimock> {
        if inst == 0 {
            self.original.as_ref()
        } else {
            self.clones.get(inst - 1).and_then(|c| c.as_ref())
        }
    }
    fn any(&self) -> Option<&Unimock> {
        self.original
            .as_ref()
            .or_else(|| self.clones.iter().flatten().next())
    }
}

fn guarded<R>(f: impl FnOnce() -> R) -> Result<R, Obs> {
    catch_unwind(AssertUnwindSafe(f)).map_err(classify_payload)
}

pub fn run_case(case: &Case) -> Trace {
    ctx_reset();

    let built = guarded(|| {
        let clause = build_clause(&case.clauses);
        if case.partial {
            Unimock::new_partial(clause)
        } else {
            Unimock::new(clause)
        }
    });

    let original = match built {
        Ok(u) => u,
        Err(obs) => {
            return Trace {
                build: Err(obs),
                snap0: None,
                ops: vec![],
                final_clone_drops: vec![],
                final_original: None,
            }
        }
    };

    let mut live = Live {
        original: Some(original),
        clones: vec![],
    };
    let snap0 = live.any().map(snapshot);
    let mut ops = Vec::with_capacity(case.history.len());

    for op in &case.history {
        ctx().events.clear();
        let obs = run_op(&mut live, op);
        let events = std::mem::take(&mut ctx().events);
        arm_inject(None);
        let snap = live.any().map(snapshot);
        ops.push(OpObs { obs, events, snap });
    }

    // implicit end of the test: clones go first, then the original
    let mut final_clone_drops = vec![];
    for c in live.clones.iter_mut() {
        if let Some(c) = c.take() {
            final_clone_drops.push(match guarded(move || drop(c)) {
                Ok(()) => Obs::Silent,
                Err(o) => o,
            });
        }
    }
    let final_original = live.original.take().map(|o| match guarded(move || drop(o)) {
        Ok(()) => Obs::Silent,
        Err(o) => o,
    });

    Trace {
        build: Ok(()),
        snap0,
        ops,
        final_clone_drops,
        final_original,
    }
}

fn run_op(live: &mut Live, op: &Op) -> Obs {
    match op {
        Op::Call {
            inst,
            method,
            args,
            on_thread,
            inject,
        } => {
            let Some(u) = live.get(*inst) else {
                return Obs::NotApplicable;
            };
            arm_inject(*inject);
            #[cfg(not(feature = "cfg-nostd-nolock"))]
            let result = if *on_thread {
                std::thread::scope(|s| {
                    s.spawn(|| guarded(|| call_method(u, *method, args)))
                        .join()
                        .unwrap_or(Err(Obs::PanicOther))
                })
            } else {
                guarded(|| call_method(u, *method, args))
            };
            // without a lock implementation Unimock is neither Send nor Sync
            #[cfg(feature = "cfg-nostd-nolock")]
            let result = {
                let _ = on_thread;
                guarded(|| call_method(u, *method, args))
            };
            match result {
                Ok(v) => Obs::Value(v),
                Err(o) => o,
            }
        }
        Op::Clone { from } => {
            let Some(u) = live.get(*from) else {
                return Obs::NotApplicable;
            };
            let c = u.clone();
            live.clones.push(Some(c));
            Obs::Silent
        }
        Op::DropClone(k) => {
            let Some(c) = live.clones.get_mut(*k - 1).and_then(|c| c.take()) else {
                return Obs::NotApplicable;
            };
            match guarded(move || drop(c)) {
                Ok(()) => Obs::Silent,
                Err(o) => o,
            }
        }
        Op::Verify => {
            let Some(o) = live.original.take() else {
                return Obs::NotApplicable;
            };
            match guarded(move || o.verify()) {
                Ok(()) => Obs::Silent,
                Err(o) => o,
            }
        }
        Op::Report => {
            #[cfg(feature = "cfg-std")]
            {
                let Some(o) = live.original.take() else {
                    return Obs::NotApplicable;
                };
                match guarded(move || std::process::Termination::report(o)) {
                    Ok(code) => Obs::Exit(format!("{code:?}")),
                    Err(o) => o,
                }
            }
            #[cfg(not(feature = "cfg-std"))]
            {
                Obs::NotApplicable
            }
        }
        Op::NoVerifyInDrop => {
            let Some(o) = live.original.take() else {
                return Obs::NotApplicable;
            };
            match guarded(move || o.no_verify_in_drop()) {
                Ok(o) => {
                    live.original = Some(o);
                    Obs::Silent
                }
                Err(o) => o,
            }
        }
        Op::DropOriginal => {
            let Some(o) = live.original.take() else {
                return Obs::NotApplicable;
            };
            match guarded(move || drop(o)) {
                Ok(()) => Obs::Silent,
                Err(o) => o,
            }
        }
        Op::DropOriginalOnThread => {
            let Some(o) = live.original.take() else {
                return Obs::NotApplicable;
            };
            #[cfg(not(feature = "cfg-nostd-nolock"))]
            let res = std::thread::spawn(move || guarded(move || drop(o)))
                .join()
                .unwrap_or(Err(Obs::PanicOther));
            #[cfg(feature = "cfg-nostd-nolock")]
            let res = guarded(move || drop(o));
            match res {
                Ok(()) => Obs::Silent,
                Err(o) => o,
            }
        }
        Op::VerifyClone(k) => {
            let Some(c) = live.clones.get_mut(*k - 1).and_then(|c| c.take()) else {
                return Obs::NotApplicable;
            };
            match guarded(move || c.verify()) {
                Ok(()) => Obs::Silent,
                Err(o) => o,
            }
        }
        Op::NoVerifyInDropClone(k) => {
            let Some(c) = live.clones.get_mut(*k - 1).and_then(|c| c.take()) else {
                return Obs::NotApplicable;
            };
            match guarded(move || c.no_verify_in_drop()) {
                Ok(c) => {
                    live.clones[*k - 1] = Some(c);
                    Obs::Silent
                }
                Err(o) => o,
            }
        }
        Op::MakeRefClone(k) => {
            let Some(u) = live.get(*k) else {
                return Obs::NotApplicable;
            };
            // without a lock implementation Unimock is not Send + Sync and cannot be lent by make_ref
            #[cfg(not(feature = "cfg-nostd-nolock"))]
            {
                let c = u.clone();
                let _lent: &Unimock = u.make_ref(c);
            }
            let _ = u;
            Obs::Silent
        }
        Op::MakeRef(k) => {
            let Some(u) = live.get(*k) else {
                return Obs::NotApplicable;
            };
            let r = u.make_ref(0xfeed_u64);
            if *r == 0xfeed {
                Obs::Silent
            } else {
                Obs::PanicOther
            }
        }
    }
}
