//! The monitors: compare an observed trace with Spec-M and attribute the first discrepancy to the
//! properties it refutes.

use std::collections::BTreeMap;

use crate::case::*;
use crate::exec::{Obs, Trace};
use crate::spec::*;
use crate::universe::{Event, LABELS, V_ANS, V_DEFAULT, V_REAL, V_RET};

#[derive(Clone, Debug)]
pub struct Discrepancy {
    /// properties this observation refutes
    pub props: Vec<&'static str>,
    /// where in the case: "build", "op <i>", "final"
    pub at: String,
    pub expected: String,
    pub observed: String,
}

#[derive(Clone, Debug, Default)]
pub struct Stats(pub BTreeMap<String, u64>);

impl Stats {
    pub fn bump(&mut self, key: &str) {
        *self.0.entry(key.to_string()).or_insert(0) += 1;
    }
    pub fn add(&mut self, key: &str, n: u64) {
        *self.0.entry(key.to_string()).or_insert(0) += n;
    }
    pub fn merge(&mut self, other: &Stats) {
        for (k, v) in &other.0 {
            *self.0.entry(k.clone()).or_insert(0) += v;
        }
    }
    pub fn get(&self, key: &str) -> u64 {
        self.0.get(key).copied().unwrap_or(0)
    }
}

#[derive(Clone, Debug)]
pub struct CheckResult {
    pub disc: Option<Discrepancy>,
    /// a discrepancy of the shared error list (H2) seen earlier in the case; the case was continued after it so
    /// that its observable consequences (verification, report()) are judged as well
    pub soft: Option<Discrepancy>,
    /// the real code took the other admissible branch at a don't-care point; the case was cut short without verdict
    pub dontcare_divergent: bool,
    pub stats: Stats,
}

#[derive(Clone, Copy, Debug, PartialEq, Eq)]
enum Src {
    Ret(usize, usize),
    Ans(usize, usize),
    Real,
    Default,
    Zero,
    Other,
}

fn decode(v: u32) -> Src {
    if v == 0 {
        Src::Zero
    } else if (V_RET..V_ANS).contains(&v) {
        let c = (v - V_RET) as usize;
        Src::Ret(c / 16, c % 16)
    } else if (V_ANS..V_REAL).contains(&v) {
        let c = (v - V_ANS) as usize;
        Src::Ans(c / 16, c % 16)
    } else if (V_REAL..V_DEFAULT).contains(&v) {
        Src::Real
    } else if v >= V_DEFAULT && v < V_DEFAULT + 1_000_000 {
        Src::Default
    } else {
        Src::Other
    }
}

fn src_pat(s: Src) -> Option<(usize, usize)> {
    match s {
        Src::Ret(u, s) | Src::Ans(u, s) => Some((u, s)),
        _ => None,
    }
}

#[derive(Clone, Copy, PartialEq, Eq)]
enum Mode {
    Unmentioned,
    Unordered,
    Ordered,
}

fn is_fallthrough_kind(k: PanicKind) -> bool {
    matches!(
        k,
        PanicKind::NoMockImpl | PanicKind::NoMatch | PanicKind::CannotUnmock | PanicKind::NoDefaultImpl
    )
}

fn is_order_kind(k: PanicKind) -> bool {
    matches!(
        k,
        PanicKind::WrongOrder | PanicKind::OutOfRange | PanicKind::InputsNotMatched
    )
}

fn tag_call_mismatch(exp: &Outcome, obs: &Obs, mode: Mode) -> Vec<&'static str> {
    let sel = if mode == Mode::Ordered { "C04" } else { "C01" };
    match (exp, obs) {
        (Outcome::Value(v), Obs::Value(w)) => {
            let (a, b) = (decode(*v), decode(*w));
            match (src_pat(a), src_pat(b)) {
                (Some((u1, s1)), Some((u2, s2))) => {
                    if u1 != u2 {
                        vec![sel]
                    } else if s1 != s2 {
                        vec!["C02"]
                    } else {
                        // same pattern and segment but another kind of response
                        vec!["C02"]
                    }
                }
                (Some(_), None) => match b {
                    Src::Real => vec![sel, "C07"],
                    Src::Default => vec![sel, "C07"],
                    Src::Zero => vec!["C02"],
                    _ => vec!["C07"],
                },
                (None, Some(_)) => match a {
                    // a fall-through / unmock / default response was expected, a pattern's value came back
                    Src::Real | Src::Default => {
                        if mode == Mode::Unmentioned {
                            vec!["C07"]
                        } else {
                            vec![sel, "C07"]
                        }
                    }
                    Src::Zero => vec!["C02"],
                    _ => vec!["C07"],
                },
                (None, None) => match (a, b) {
                    // the registered real function should have run, the default body did
                    (Src::Real, Src::Default) => vec!["C07", "C16"],
                    // the trait's own default body should have run, the real function did
                    (Src::Default, Src::Real) => vec!["C07", "C15"],
                    (Src::Real, Src::Real) => vec!["C16"],
                    (Src::Default, Src::Default) => vec!["C15"],
                    _ => vec!["C07"],
                },
            }
        }
        (Outcome::Value(v), Obs::PanicString(msg)) => match classify_panic(msg) {
            Some(PanicKind::NoMatch) => vec!["C01", "C07"],
            // a pattern other than the answering one (e.g. a later one without matcher function) got involved
            Some(PanicKind::NoMatcherFn) => vec![sel],
            Some(PanicKind::CannotReturnTwice) | Some(PanicKind::NoOutput) | Some(PanicKind::Explicit) => {
                vec!["C02"]
            }
            Some(k) if is_order_kind(k) => vec!["C04"],
            Some(k) if is_fallthrough_kind(k) => {
                if src_pat(decode(*v)).is_some() {
                    vec![sel, "C07"]
                } else {
                    vec!["C07"]
                }
            }
            _ => vec!["C02"],
        },
        (Outcome::MockPanic { kind, .. }, Obs::Value(w)) => {
            if is_fallthrough_kind(*kind) {
                if src_pat(decode(*w)).is_some() && mode == Mode::Unordered {
                    vec!["C01", "C07"]
                } else {
                    vec!["C07"]
                }
            } else if is_order_kind(*kind) {
                vec!["C04"]
            } else if *kind == PanicKind::CannotReturnTwice {
                vec!["C02", "C12"]
            } else {
                vec!["C02"]
            }
        }
        (Outcome::MockPanic { kind, .. }, Obs::PanicString(msg)) => {
            let k2 = classify_panic(msg);
            if is_order_kind(*kind) || k2.map(is_order_kind).unwrap_or(false) {
                vec!["C04"]
            } else if *kind == PanicKind::CannotUnmock {
                // "if no function was registered the call panics naming the method": another error came out
                vec!["C07", "C16"]
            } else if is_fallthrough_kind(*kind) || k2.map(is_fallthrough_kind).unwrap_or(false) {
                vec!["C07"]
            } else {
                vec!["C02"]
            }
        }
        // the mock should have failed the call with one of its own errors, but a foreign panic came out of it (e.g.
        // from its own message formatting): the call is not identified (C19) and the error cannot have been
        // remembered for verification (C08)
        (Outcome::MockPanic { .. }, Obs::PanicStatic(_)) | (Outcome::MockPanic { .. }, Obs::PanicOther) => {
            vec!["C07", "C08", "C19"]
        }
        // a matcher that should not have been consulted (a pattern after the answering one) was run
        (Outcome::Value(_), Obs::UserPanic("matcher")) | (Outcome::MockPanic { .. }, Obs::UserPanic("matcher")) => {
            vec![sel, "C11"]
        }
        (Outcome::UserPanic(_), _) | (_, Obs::UserPanic(_)) => vec!["C08", "C11"],
        _ => vec!["C07"],
    }
}

fn outcome_matches(exp: &Outcome, obs: &Obs) -> bool {
    match (exp, obs) {
        (Outcome::Value(v), Obs::Value(w)) => v == w,
        (Outcome::MockPanic { kind, .. }, Obs::PanicString(msg)) => classify_panic(msg) == Some(*kind),
        (Outcome::UserPanic(a), Obs::UserPanic(b)) => a == b,
        _ => false,
    }
}

/// C19-ish sanity on a matching mock panic: the message names the method (and the pattern when it has debug info)
/// `naming_ok` plus the rendering of the call itself: `Trait::method(args)` with the Debug renderings of the actual
/// arguments (all of the universe's arguments are small integers), except for the two error kinds that only name
/// the method.
pub fn naming_ok_with_args(exp: &Outcome, msg: &str, spec: &Spec, called: MethodId, args: &[u8]) -> bool {
    if !naming_ok(exp, msg, spec) {
        return false;
    }
    if let Outcome::MockPanic { kind, method, .. } = exp {
        // (an error about a nested call made by a real function / default body carries that call's arguments)
        if *method == called && !matches!(kind, PanicKind::CannotUnmock | PanicKind::NoDefaultImpl) {
            let rendered = format!(
                "{}({})",
                method.path(),
                args.iter().map(|a| a.to_string()).collect::<Vec<_>>().join(", ")
            );
            return msg.starts_with(&rendered);
        }
    }
    true
}

pub fn naming_ok(exp: &Outcome, msg: &str, spec: &Spec) -> bool {
    if let Outcome::MockPanic { kind, method, pat } = exp {
        if !msg.contains(&method.path()) {
            return false;
        }
        if let Some(uid) = pat {
            let has_debug = spec
                .pats
                .iter()
                .find(|p| p.uid == *uid)
                .map(|p| p.matcher != MatcherKind::NoDebug)
                .unwrap_or(false);
            if has_debug
                && matches!(
                    kind,
                    PanicKind::WrongOrder
                        | PanicKind::InputsNotMatched
                        | PanicKind::CannotReturnTwice
                        | PanicKind::Explicit
                        | PanicKind::NoOutput
                        | PanicKind::NoMatcherFn
                )
                && !msg.contains(&format!("{} at case:{}", LABELS[*uid], uid))
            {
                return false;
            }
        }
    }
    true
}

/// Parse a failed-verification text into one id per line.
pub fn parse_verification(text: &str, _spec: &Spec) -> Result<Vec<LineId2>, String> {
    let mut out = vec![];
    for line in text.lines() {
        if line.trim().is_empty() {
            continue;
        }
        if let Some(pos) = line.find("at case:") {
            let digits: String = line[pos + 8..].chars().take_while(|c| c.is_ascii_digit()).collect();
            match digits.parse::<usize>() {
                Ok(uid) => out.push(LineId2::Pattern(uid)),
                Err(_) => return Err(format!("unparsable line: {line}")),
            }
        } else if let Some(pos) = line.find("[#") {
            // "call pattern A::a1[#2]"
            let idx: String = line[pos + 2..].chars().take_while(|c| c.is_ascii_digit()).collect();
            let before = &line[..pos];
            let path = before.rsplit(' ').next().unwrap_or("");
            let idx: usize = idx.parse().map_err(|_| format!("unparsable line: {line}"))?;
            // generic instantiations share a path, so (path, index) is the identity of such a line
            out.push(LineId2::PatternByIndex(path.to_string(), idx));
        } else if line.contains("never called") {
            let path = ALL_METHODS
                .iter()
                .map(|m| m.path())
                .find(|p| line.contains(p.as_str()));
            match path {
                Some(p) => out.push(LineId2::NeverCalled(p)),
                None => return Err(format!("never-called line without method: {line}")),
            }
        } else {
            return Err(format!("unrecognised line: {line}"));
        }
    }
    out.sort();
    Ok(out)
}

#[derive(Clone, Debug, PartialEq, Eq, PartialOrd, Ord)]
pub enum LineId2 {
    Pattern(usize),
    /// a pattern without debug info is named as `Trait::method[#index]`
    PatternByIndex(String, usize),
    NeverCalled(String),
}

fn to_line2(ids: &[LineId], spec: &Spec) -> Vec<LineId2> {
    let mut v: Vec<LineId2> = ids
        .iter()
        .map(|l| match l {
            LineId::Pattern(u) => {
                let p = spec.pats.iter().find(|p| p.uid == *u).unwrap();
                if p.matcher == MatcherKind::NoDebug {
                    LineId2::PatternByIndex(p.method.path(), p.index)
                } else {
                    LineId2::Pattern(*u)
                }
            }
            LineId::NeverCalled(m) => LineId2::NeverCalled(m.path()),
        })
        .collect();
    v.sort();
    v
}

fn exit_success() -> String {
    #[cfg(feature = "cfg-std")]
    {
        format!("{:?}", std::process::ExitCode::SUCCESS)
    }
    #[cfg(not(feature = "cfg-std"))]
    {
        String::new()
    }
}

fn exit_failure() -> String {
    #[cfg(feature = "cfg-std")]
    {
        format!("{:?}", std::process::ExitCode::FAILURE)
    }
    #[cfg(not(feature = "cfg-std"))]
    {
        String::new()
    }
}

struct LifeCmp<'a> {
    spec: &'a Spec,
    observed_errors: &'a [String],
    had_user_panic: bool,
}

impl LifeCmp<'_> {
    /// None = matches; Some(tags, expected, observed) otherwise
    fn compare(&self, exp: &LifeOutcome, obs: &Obs) -> Option<(Vec<&'static str>, String)> {
        let verdict_tag = |v: &Verdict| -> Vec<&'static str> {
            match v {
                Verdict::Errors(_) => vec!["C08"],
                _ => {
                    if self.had_user_panic {
                        vec!["C03", "C08"]
                    } else {
                        vec!["C03"]
                    }
                }
            }
        };
        match (exp, obs) {
            (LifeOutcome::Silent, Obs::Silent) => None,
            (LifeOutcome::Silent, Obs::PanicString(_)) => {
                // a verification failed that should have passed (or should not have run at all)
                let mut tags = if self.observed_errors.is_empty() {
                    if self.had_user_panic {
                        vec!["C03", "C08"]
                    } else {
                        vec!["C03"]
                    }
                } else {
                    vec!["C08"]
                };
                tags.push("C09");
                Some((tags, "silent".into()))
            }
            (LifeOutcome::Silent, _) => Some((vec!["C09"], "silent".into())),
            (LifeOutcome::LiveClones, Obs::PanicStatic(m)) | (LifeOutcome::LiveClones, Obs::PanicString(m))
                if m.contains("clones") =>
            {
                None
            }
            (LifeOutcome::LiveClones, _) => Some((vec!["C09"], "panic: clones still alive".into())),
            (LifeOutcome::WrongThread, Obs::PanicStatic(m)) | (LifeOutcome::WrongThread, Obs::PanicString(m))
                if m.contains("thread") =>
            {
                None
            }
            (LifeOutcome::WrongThread, _) => Some((vec!["C09"], "panic: different thread".into())),
            (LifeOutcome::CloneVerify, Obs::PanicStatic(m)) | (LifeOutcome::CloneVerify, Obs::PanicString(m))
                if m.contains("verify") =>
            {
                None
            }
            (LifeOutcome::CloneVerify, _) => Some((vec!["C09"], "panic: verify() on a clone".into())),
            (LifeOutcome::CloneNoVerify, Obs::PanicStatic(m))
            | (LifeOutcome::CloneNoVerify, Obs::PanicString(m))
                if m.contains("no_verify") =>
            {
                None
            }
            (LifeOutcome::CloneNoVerify, _) => {
                Some((vec!["C09"], "panic: no_verify_in_drop() on a clone".into()))
            }
            (LifeOutcome::Failed(v), Obs::PanicString(text)) => match v {
                Verdict::Errors(n) => {
                    // the text must contain every recorded error (for the wrong variants that forward only
                    // the first n: exactly those)
                    let n = (*n).min(self.observed_errors.len());
                    let missing: Vec<&String> = self.observed_errors[..n]
                        .iter()
                        .filter(|e| !text.contains(e.as_str()))
                        .collect();
                    let extra = self.observed_errors[n..]
                        .iter()
                        .any(|e| text.contains(e.as_str()) && !self.observed_errors[..n].contains(e));
                    if missing.is_empty() && !extra {
                        None
                    } else {
                        Some((
                            vec!["C08"],
                            format!("verification text containing every recorded error; missing: {missing:?}"),
                        ))
                    }
                }
                Verdict::Lines(ids) => {
                    let want = to_line2(ids, self.spec);
                    match parse_verification(text, self.spec) {
                        Ok(got) if got == want => None,
                        Ok(got) => {
                            // the right number of lines, but (some) naming another pattern / method than the
                            // violated one: that is also a message naming the wrong pattern (C19)
                            let mut tags = verdict_tag(v);
                            if got.len() == want.len() {
                                tags.push("C19");
                            }
                            Some((tags, format!("verification lines {want:?}, parsed {got:?}")))
                        }
                        Err(e) => Some((verdict_tag(v), format!("verification lines {want:?}; {e}"))),
                    }
                }
                Verdict::Ok => unreachable!(),
            },
            (LifeOutcome::Failed(v), _) => Some((verdict_tag(v), format!("verification failure {v:?}"))),
            (LifeOutcome::Exit(true), Obs::Exit(s)) if *s == exit_success() => None,
            (LifeOutcome::Exit(true), Obs::Exit(_)) => {
                let mut t = if self.observed_errors.is_empty() {
                    vec!["C03"]
                } else {
                    vec!["C08"]
                };
                t.push("C09");
                Some((t, "ExitCode::SUCCESS".into()))
            }
            (LifeOutcome::Exit(_), _) => Some((vec!["C09"], "ExitCode::SUCCESS".into())),
            (LifeOutcome::ExitFailure(_), Obs::Exit(s)) if *s == exit_failure() => None,
            (LifeOutcome::ExitFailure(v), _) => {
                let mut t = verdict_tag(v);
                t.push("C09");
                Some((t, format!("ExitCode::FAILURE ({v:?})")))
            }
        }
    }
}

fn mode_of(spec: &Spec, method: MethodId) -> Mode {
    match spec.methods.get(&method) {
        None => Mode::Unmentioned,
        Some((true, _)) => Mode::Ordered,
        Some((false, _)) => Mode::Unordered,
    }
}

fn short(s: &str) -> String {
    if s.len() > 400 {
        format!("{}…", &s[..s.char_indices().take_while(|(i, _)| *i < 400).last().map(|(i, c)| i + c.len_utf8()).unwrap_or(0)])
    } else {
        s.to_string()
    }
}

pub fn check(case: &Case, trace: &Trace, cfg: BuildCfg, variant: Variant) -> CheckResult {
    let mut r = check_inner(case, trace, cfg, variant);
    // C11: "after a caught user panic the mock remains usable and verification reflects the calls actually
    // matched": a discrepancy at or after an operation that ended in a (caught) user panic also refutes C11
    if let Some(d) = &mut r.disc {
        let idx = d
            .at
            .strip_prefix("op ")
            .and_then(|rest| rest.split(' ').next())
            .and_then(|n| n.parse::<usize>().ok())
            .unwrap_or(usize::MAX);
        let user_panic_before = trace
            .ops
            .iter()
            .take(idx.saturating_add(1).min(trace.ops.len()))
            .any(|o| matches!(o.obs, Obs::UserPanic(_)));
        if user_panic_before && !d.props.contains(&"C11") {
            d.props.push("C11");
        }
    }
    r
}

fn check_inner(case: &Case, trace: &Trace, cfg: BuildCfg, variant: Variant) -> CheckResult {
    let mut stats = Stats::default();
    let soft_cell: std::cell::RefCell<Option<Discrepancy>> = std::cell::RefCell::new(None);
    let mut result = |disc: Option<Discrepancy>, dc: bool, stats: Stats| {
        let soft = soft_cell.borrow().clone();
        match disc {
            Some(d) => CheckResult {
                disc: Some(d),
                soft,
                dontcare_divergent: dc,
                stats,
            },
            None => CheckResult {
                disc: soft,
                soft: None,
                dontcare_divergent: dc,
                stats,
            },
        }
    };

    // ---- construction
    let built = Spec::build(case.partial, &case.clauses, cfg, variant);
    let mut spec = match (built, &trace.build) {
        (Err(e), Err(obs)) => {
            let ok = match (&e, obs) {
                (BuildErr::MixedMode(m), Obs::PanicString(msg)) => msg.contains(&m.path()),
                (BuildErr::EmptyStub, Obs::PanicString(_)) => true,
                (BuildErr::NoMutexApi, Obs::PanicString(_)) => true,
                _ => false,
            };
            stats.bump(&format!("build_rejected_{}", match e {
                BuildErr::MixedMode(_) => "mixed_mode",
                BuildErr::EmptyStub => "empty_stub",
                BuildErr::NoMutexApi => "no_mutex_api",
            }));
            let disc = if ok {
                None
            } else {
                Some(Discrepancy {
                    props: vec!["C14"],
                    at: "build".into(),
                    expected: format!("constructor panics naming the problem: {e:?}"),
                    observed: format!("{obs:?}"),
                })
            };
            return result(disc, false, stats);
        }
        (Err(e), Ok(())) => {
            return result(
                Some(Discrepancy {
                    props: vec!["C14"],
                    at: "build".into(),
                    expected: format!("constructor panics: {e:?}"),
                    observed: "constructor returned".into(),
                }),
                false,
                stats,
            )
        }
        (Ok(_), Err(obs)) => {
            return result(
                Some(Discrepancy {
                    props: vec!["C14"],
                    at: "build".into(),
                    expected: "constructor returns".into(),
                    observed: format!("{obs:?}"),
                }),
                false,
                stats,
            )
        }
        (Ok(spec), Ok(())) => spec,
    };
    stats.bump("built");
    stats.add("patterns", spec.pats.len() as u64);

    // ---- structure right after construction (H2): per method the pattern order and the slot ranges
    if let Some(snap) = &trace.snap0 {
        let mut want: Vec<(String, usize, Option<u32>, (usize, usize))> = spec
            .pats
            .iter()
            .map(|p| {
                (
                    p.method.path(),
                    p.index,
                    if p.matcher == MatcherKind::NoDebug { None } else { Some(p.uid as u32) },
                    p.slot,
                )
            })
            .collect();
        let mut got: Vec<(String, usize, Option<u32>, (usize, usize))> = snap
            .patterns
            .iter()
            .map(|p| {
                (
                    format!("{}::{}", p.trait_ident, p.method_ident),
                    p.index,
                    p.line,
                    p.slot_range,
                )
            })
            .collect();
        want.sort();
        got.sort();
        // generic instantiations share a path: sort makes the comparison order-insensitive
        if want != got {
            // which aspect differs decides which properties are refuted besides C14 (composition):
            // slot ranges are the expected ordered sequence (C04), the per-method order is the priority (C01)
            let strip = |v: &Vec<(String, usize, Option<u32>, (usize, usize))>| -> Vec<(String, usize, Option<u32>)> {
                v.iter().map(|(a, b, c, _)| (a.clone(), *b, *c)).collect()
            };
            let mut props = vec!["C14"];
            if strip(&want) == strip(&got) {
                props.push("C04");
            } else {
                props.push("C01");
                props.push("C04");
            }
            return result(
                Some(Discrepancy {
                    props,
                    at: "build".into(),
                    expected: format!("patterns (method, index, uid, slots) {want:?}"),
                    observed: format!("{got:?}"),
                }),
                false,
                stats,
            );
        }
        if snap.partial != case.partial {
            return result(
                Some(Discrepancy {
                    props: vec!["C07"],
                    at: "build".into(),
                    expected: format!("partial={}", case.partial),
                    observed: format!("partial={}", snap.partial),
                }),
                false,
                stats,
            );
        }
    }

    let mut observed_errors: Vec<String> = vec![];
    let mut had_user_panic = false;

    for (i, (op, o)) in case.history.iter().zip(trace.ops.iter()).enumerate() {
        let at = format!("op {i} ({op})");
        spec.dontcare = false;
        match op {
            Op::Call {
                inst,
                method,
                args,
                inject,
                ..
            } => {
                if !spec.inst_alive(*inst) || o.obs == Obs::NotApplicable {
                    panic!("generator bug: call on dead instance in {case}");
                }
                let mode = mode_of(&spec, *method);
                // which cell of the fall-through decision table does this call visit
                {
                    let class = match (method.has_default(), method.has_real(), method.partial_by_default()) {
                        (_, true, true) => "pbd_real",
                        (_, false, true) => "pbd_none",
                        (true, true, _) => "both",
                        (true, false, _) => "default",
                        (false, true, _) => "real",
                        (false, false, _) => "neither",
                    };
                    let accepted = spec
                        .pats
                        .iter()
                        .any(|p| p.method == *method && p.mask & (1 << method.arg_code(args)) != 0);
                    let situation = match mode {
                        Mode::Unmentioned => "unmentioned",
                        Mode::Unordered if !accepted => "unmatched",
                        Mode::Unordered => "matched",
                        Mode::Ordered => "ordered",
                    };
                    if situation != "matched" && situation != "ordered" {
                        stats.bump(&format!(
                            "cell_{}_{}_{}",
                            if case.partial { "partial" } else { "strict" },
                            situation,
                            class
                        ));
                    }
                }
                let mut inj = *inject;
                let mut exp_events = vec![];
                let exp = spec.call(*method, args, *inst == 0, &mut inj, &mut exp_events);

                stats.bump("calls");
                match &o.obs {
                    Obs::Value(v) => match decode(*v) {
                        Src::Ret(..) => stats.bump("out_return"),
                        Src::Ans(..) => stats.bump("out_answer"),
                        Src::Real => stats.bump("out_real"),
                        Src::Default => stats.bump("out_default_body"),
                        Src::Zero => stats.bump("out_returns_default"),
                        Src::Other => stats.bump("out_other"),
                    },
                    Obs::PanicString(m) => match classify_panic(m) {
                        Some(k) => stats.bump(&format!("mockpanic_{k:?}")),
                        None => stats.bump("panic_unclassified"),
                    },
                    Obs::UserPanic(t) => stats.bump(&format!("userpanic_{t}")),
                    _ => stats.bump("out_otherpanic"),
                }

                if !outcome_matches(&exp, &o.obs) {
                    if spec.dontcare
                        && matches!(&o.obs, Obs::PanicString(m) if classify_panic(m).is_some())
                    {
                        stats.bump("dontcare_divergent");
                        return result(None, true, stats);
                    }
                    return result(
                        Some(Discrepancy {
                            props: tag_call_mismatch(&exp, &o.obs, mode),
                            at,
                            expected: format!("{exp:?}"),
                            observed: short(&format!("{:?}", o.obs)),
                        }),
                        false,
                        stats,
                    );
                }
                if spec.dontcare {
                    stats.bump("dontcare_points");
                }
                if let Obs::PanicString(msg) = &o.obs {
                    observed_errors.push(msg.clone());
                    if !naming_ok_with_args(&exp, msg, &spec, *method, args) {
                        // the properties that promise a panic *naming the call* for this kind of error
                        let props = match &exp {
                            Outcome::MockPanic { kind: PanicKind::CannotUnmock, .. } => vec!["C19", "C16"],
                            Outcome::MockPanic { kind: PanicKind::NoMockImpl | PanicKind::NoMatch, .. } => vec!["C19", "C07"],
                            _ => vec!["C19"],
                        };
                        return result(
                            Some(Discrepancy {
                                props,
                                at,
                                expected: format!("message naming the method and pattern of {exp:?}"),
                                observed: short(msg),
                            }),
                            false,
                            stats,
                        );
                    }
                }
                if let Obs::UserPanic(_) = &o.obs {
                    had_user_panic = true;
                }
                if exp_events != o.events {
                    let tag = |e: Option<&Event>| match e {
                        Some(Event::Answer { .. }) => vec!["C05"],
                        Some(Event::Real { .. }) => vec!["C16", "C07"],
                        Some(Event::DefaultBody { .. }) => vec!["C15", "C07"],
                        Some(Event::Nested(_)) => vec!["C15", "C16"],
                        None => vec!["C07"],
                    };
                    let first_diff = exp_events
                        .iter()
                        .zip(o.events.iter())
                        .position(|(a, b)| a != b)
                        .unwrap_or(exp_events.len().min(o.events.len()));
                    let props = tag(exp_events.get(first_diff).or(o.events.get(first_diff)));
                    return result(
                        Some(Discrepancy {
                            props,
                            at,
                            expected: format!("callback events {exp_events:?}"),
                            observed: format!("{:?}", o.events),
                        }),
                        false,
                        stats,
                    );
                }
                stats.add("events", o.events.len() as u64);

                // counters (H2)
                if let Some(snap) = &o.snap {
                    if let Some(d) = compare_snapshot(&spec, snap, mode, &observed_errors, &at) {
                        if d.props == vec!["C08"] {
                            // the shared error list differs from the observed mock panics: remember it, and go
                            // on to see what verification / report() make of it
                            let mut soft = soft_cell.borrow_mut();
                            if soft.is_none() {
                                *soft = Some(d);
                            }
                        } else {
                            return result(Some(d), false, stats);
                        }
                    }
                    stats.bump("snapshots");
                }
            }
            other => {
                let Some(exp) = spec.life(other) else {
                    panic!("generator bug: lifecycle op {other} not applicable in {case}");
                };
                stats.bump(&format!("life_{}", life_key(other)));
                let cmp = LifeCmp {
                    spec: &spec,
                    observed_errors: &observed_errors,
                    had_user_panic,
                };
                if let Some((props, expected)) = cmp.compare(&exp, &o.obs) {
                    return result(
                        Some(Discrepancy {
                            props,
                            at,
                            expected,
                            observed: short(&format!("{:?}", o.obs)),
                        }),
                        false,
                        stats,
                    );
                }
                bump_verdict_stats(&mut stats, &exp, &spec);
            }
        }
    }

    // ---- implicit end: clones dropped, then the original
    for (k, obs) in trace.final_clone_drops.iter().enumerate() {
        if *obs != Obs::Silent {
            return result(
                Some(Discrepancy {
                    props: vec!["C09"],
                    at: format!("final drop of clone #{k}"),
                    expected: "silent".into(),
                    observed: short(&format!("{obs:?}")),
                }),
                false,
                stats,
            );
        }
    }
    for a in spec.clones_alive.iter_mut() {
        *a = false;
    }
    match (&trace.final_original, spec.original_alive) {
        (Some(obs), true) => {
            let exp = spec.life(&Op::DropOriginal).unwrap();
            let cmp = LifeCmp {
                spec: &spec,
                observed_errors: &observed_errors,
                had_user_panic,
            };
            if let Some((props, expected)) = cmp.compare(&exp, obs) {
                return result(
                    Some(Discrepancy {
                        props,
                        at: "final drop of the original".into(),
                        expected,
                        observed: short(&format!("{obs:?}")),
                    }),
                    false,
                    stats,
                );
            }
            bump_verdict_stats(&mut stats, &exp, &spec);
        }
        (None, false) => {}
        (a, b) => panic!("harness bug: original alive mismatch {a:?} {b} in {case}"),
    }

    result(None, false, stats)
}

fn life_key(op: &Op) -> &'static str {
    match op {
        Op::Clone { .. } => "clone",
        Op::DropClone(_) => "drop_clone",
        Op::Verify => "verify",
        Op::Report => "report",
        Op::NoVerifyInDrop => "no_verify_in_drop",
        Op::DropOriginal => "drop_original",
        Op::DropOriginalOnThread => "drop_original_on_thread",
        Op::VerifyClone(_) => "verify_clone",
        Op::NoVerifyInDropClone(_) => "no_verify_in_drop_clone",
        Op::MakeRef(_) => "make_ref",
        Op::MakeRefClone(_) => "make_ref_clone",
        Op::Call { .. } => "call",
    }
}

fn bump_verdict_stats(stats: &mut Stats, exp: &LifeOutcome, spec: &Spec) {
    match exp {
        LifeOutcome::Failed(v) | LifeOutcome::ExitFailure(v) => match v {
            Verdict::Errors(_) => stats.bump("verdict_errors_forwarded"),
            Verdict::Lines(ids) => {
                stats.bump("verdict_lines");
                stats.bump(&format!("verdict_lines_n{}", ids.len().min(5)));
                for id in ids {
                    match id {
                        LineId::NeverCalled(_) => stats.bump("line_never_called"),
                        LineId::Pattern(uid) => {
                            let p = spec.pats.iter().find(|p| p.uid == *uid).unwrap();
                            let rel = if p.count + 1 == p.lower {
                                "one_below"
                            } else if p.count < p.lower {
                                "far_below"
                            } else if p.count == p.lower + 1 {
                                "one_above"
                            } else {
                                "far_above"
                            };
                            stats.bump(&format!(
                                "line_{}_{}",
                                if p.exact { "exact" } else { "atleast" },
                                rel
                            ));
                        }
                    }
                }
            }
            Verdict::Ok => {}
        },
        LifeOutcome::LiveClones => stats.bump("verdict_live_clones"),
        LifeOutcome::WrongThread => stats.bump("verdict_wrong_thread"),
        LifeOutcome::Silent | LifeOutcome::Exit(true) => {}
        _ => {}
    }
    if matches!(exp, LifeOutcome::Silent | LifeOutcome::Exit(true)) && !spec.original_alive {
        // a passing verification: record which boundaries were met exactly
        for p in &spec.pats {
            if p.count == p.lower && p.lower > 0 {
                stats.bump(&format!("met_{}_at_bound", if p.exact { "exact" } else { "atleast" }));
            } else if !p.exact && p.count > p.lower {
                stats.bump("met_atleast_above_bound");
            }
        }
    }
}

fn compare_snapshot(
    spec: &Spec,
    snap: &unimock::verif::Snapshot,
    mode: Mode,
    observed_errors: &[String],
    at: &str,
) -> Option<Discrepancy> {
    // counters, matched by (path, index, uid) with the generic instantiations disambiguated by uid
    let mut want: Vec<(String, usize, Option<u32>, usize)> = spec
        .pats
        .iter()
        .map(|p| {
            (
                p.method.path(),
                p.index,
                if p.matcher == MatcherKind::NoDebug { None } else { Some(p.uid as u32) },
                p.count,
            )
        })
        .collect();
    let mut got: Vec<(String, usize, Option<u32>, usize)> = snap
        .patterns
        .iter()
        .map(|p| {
            (
                format!("{}::{}", p.trait_ident, p.method_ident),
                p.index,
                p.line,
                p.count,
            )
        })
        .collect();
    want.sort();
    got.sort();
    if want != got {
        let props = match mode {
            Mode::Unmentioned => vec!["C07"],
            Mode::Unordered => vec!["C01", "C07"],
            Mode::Ordered => vec!["C04"],
        };
        return Some(Discrepancy {
            props,
            at: at.to_string(),
            expected: format!("match counters (method, index, uid, count) {want:?}"),
            observed: format!("{got:?}"),
        });
    }
    if spec.g != snap.ordered_index {
        return Some(Discrepancy {
            props: vec!["C04"],
            at: at.to_string(),
            expected: format!("global ordered index {}", spec.g),
            observed: format!("{}", snap.ordered_index),
        });
    }
    let mut a: Vec<&String> = observed_errors.iter().collect();
    let mut b: Vec<&String> = snap.errors.iter().collect();
    a.sort();
    b.sort();
    if a != b {
        return Some(Discrepancy {
            props: vec!["C08"],
            at: at.to_string(),
            expected: format!("recorded errors = the {} mock panics observed so far", a.len()),
            observed: short(&format!("{b:?}")),
        });
    }
    None
}

/// Does `text` contain every error message? Messages are joined by newlines in the verification text, so for
/// large numbers of errors the test is done line-wise (every line of every message must be a line of the text,
/// with multiplicity), which avoids a quadratic substring search.
pub fn contains_all_errors(text: &str, errors: &[String]) -> bool {
    if errors.len() <= 64 {
        return errors.iter().all(|e| text.contains(e.as_str()));
    }
    let mut lines: std::collections::HashMap<&str, i64> = std::collections::HashMap::new();
    for l in text.lines() {
        *lines.entry(l).or_insert(0) += 1;
    }
    for e in errors {
        for l in e.lines() {
            match lines.get_mut(l) {
                Some(n) if *n > 0 => *n -= 1,
                _ => return false,
            }
        }
    }
    true
}
