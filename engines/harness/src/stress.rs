//! Real-thread stress for C10: histories far too long for a linearizability search are judged by
//! conservation laws. The cases are built so that the multiset of outcomes is the same for every order
//! (unordered patterns select by arguments only; all ordered calls of a case are interchangeable), hence the
//! expectation is obtained by running Spec-M over the calls in any sequential order.

use std::collections::BTreeMap;

use crate::case::*;
use crate::check::{parse_verification, Discrepancy, LineId2};
use crate::conc::{ConcCase, ConcTrace, ThreadProg};
use crate::exec::Obs;
use crate::prng::Rng;
use crate::spec::*;

#[derive(Clone, Debug)]
pub struct Expected {
    /// "v<value>" or "panic:<kind>" -> count
    pub outcomes: BTreeMap<String, u64>,
    pub counters: Vec<(String, usize, usize)>,
    pub g: usize,
    pub n_errors: usize,
    pub verdict: Verdict,
    pub spec: Spec,
}

fn seg(resp: Resp, quant: Quant) -> Seg {
    Seg { resp, quant }
}

fn chain(rng: &mut Rng, budget: usize) -> Vec<Seg> {
    let n = rng.range(1, 4);
    let mut segs = vec![];
    for i in 0..n {
        let last = i + 1 == n;
        let q = if last {
            match rng.below(4) {
                0 => Quant::None,
                1 => Quant::AtLeast(rng.below(budget + 2)),
                2 => Quant::N(rng.below(budget + 2)),
                _ => Quant::None,
            }
        } else if rng.chance(1, 3) {
            Quant::Once
        } else {
            Quant::N(rng.below(budget / 2 + 2))
        };
        segs.push(seg(if rng.chance(1, 5) { Resp::AnswerArc } else { Resp::Ret }, q));
    }
    segs
}

pub fn gen_stress_case(rng: &mut Rng, threads: usize, calls: usize) -> (ConcCase, Expected) {
    let n_total = threads * calls;
    let mut leaves = vec![];
    let mut uid = 0;
    let class = rng.below(3);
    let mut call_menu: Vec<(MethodId, Vec<u8>)> = vec![];
    if class == 0 || class == 2 {
        // unordered: an optional narrow pattern first, then a catch-all, each with a chain
        if rng.chance(1, 2) {
            leaves.push(ClauseTree::Single(PatternSpec {
                uid,
                method: MethodId::A1,
                kind: PatKind::EachCall,
                mask: 0b001,
                matcher: MatcherKind::Mask,
                segs: chain(rng, n_total / 3),
            }));
            uid += 1;
        }
        leaves.push(ClauseTree::Single(PatternSpec {
            uid,
            method: MethodId::A1,
            kind: PatKind::EachCall,
            mask: 0b111,
            matcher: MatcherKind::Mask,
            segs: chain(rng, n_total),
        }));
        uid += 1;
        for x in 0..3u8 {
            call_menu.push((MethodId::A1, vec![x]));
        }
    }
    if class == 1 || class == 2 {
        // ordered: K slots, every slot its own clause (distinct values) or clauses spanning several slots
        let k = rng.range(1, (n_total * 3 / 2).max(2));
        let mut remaining = k;
        while remaining > 0 && uid < 90 {
            let span = if rng.chance(1, 2) { 1 } else { rng.range(1, remaining.min(40)) };
            leaves.push(ClauseTree::Single(PatternSpec {
                uid,
                method: MethodId::A3,
                kind: PatKind::NextCall,
                mask: 0b111,
                matcher: MatcherKind::Mask,
                segs: vec![seg(Resp::Ret, Quant::N(span))],
            }));
            uid += 1;
            remaining -= span;
        }
        for x in 0..3u8 {
            call_menu.push((MethodId::A3, vec![x]));
        }
    }
    let clauses = if leaves.len() == 1 {
        leaves.pop().unwrap()
    } else {
        crate::gen::gen_rearrange(rng, leaves)
    };
    let mut progs = vec![];
    for _ in 0..threads {
        let mut c = vec![];
        for _ in 0..calls {
            c.push(rng.pick(&call_menu).clone());
        }
        progs.push(ThreadProg {
            own_clone: rng.chance(1, 2),
            calls: c,
        });
    }
    let case = ConcCase {
        partial: false,
        clauses,
        threads: progs,
    };
    let expected = expect(&case);
    (case, expected)
}

fn key_of_outcome(o: &Outcome) -> String {
    match o {
        Outcome::Value(v) => format!("v{v}"),
        Outcome::MockPanic { kind, .. } => format!("panic:{kind:?}"),
        Outcome::UserPanic(t) => format!("user:{t}"),
    }
}

fn key_of_obs(o: &Obs) -> String {
    match o {
        Obs::Value(v) => format!("v{v}"),
        Obs::PanicString(m) => match classify_panic(m) {
            Some(k) => format!("panic:{k:?}"),
            None => format!("panic-text:{m}"),
        },
        other => format!("{other:?}"),
    }
}

pub fn expect(case: &ConcCase) -> Expected {
    let cfg = crate::build_cfg();
    let mut spec = Spec::build(case.partial, &case.clauses, cfg, Variant::True).expect("stress case builds");
    let mut outcomes = BTreeMap::new();
    for t in &case.threads {
        for (m, a) in &t.calls {
            let mut inj = None;
            let mut ev = vec![];
            let o = spec.call(*m, a, false, &mut inj, &mut ev);
            *outcomes.entry(key_of_outcome(&o)).or_insert(0) += 1;
        }
    }
    let mut counters: Vec<(String, usize, usize)> = spec
        .pats
        .iter()
        .map(|p| (p.method.path(), p.index, p.count))
        .collect();
    counters.sort();
    Expected {
        outcomes,
        counters,
        g: spec.g,
        n_errors: spec.n_errors,
        verdict: spec.verdict(),
        spec,
    }
}

pub fn describe(case: &ConcCase) -> String {
    let n: usize = case.threads.iter().map(|t| t.calls.len()).sum();
    format!(
        "{} ; {} threads x {} calls = {} calls over {:?}",
        case.clauses,
        case.threads.len(),
        case.threads[0].calls.len(),
        n,
        {
            let mut menu: Vec<String> = case
                .threads
                .iter()
                .flat_map(|t| t.calls.iter().map(|(m, a)| format!("{}{:?}", m.method_name(), a)))
                .collect();
            menu.sort();
            menu.dedup();
            menu
        }
    )
}

pub fn check_stress(case: &ConcCase, exp: &Expected, trace: &ConcTrace) -> Option<Discrepancy> {
    let _ = case;
    // the dontcare flag: exact chains overflowed with a repeatable last response have no defined response;
    // the generator's chains may be exact, so compare those classes leniently
    let mut got: BTreeMap<String, u64> = BTreeMap::new();
    for c in &trace.calls {
        *got.entry(key_of_obs(&c.obs)).or_insert(0) += 1;
    }
    if exp.spec.dontcare {
        // only the total number of calls and the counters are defined
    } else if got != exp.outcomes {
        let diff: Vec<String> = exp
            .outcomes
            .iter()
            .filter(|(k, v)| got.get(*k) != Some(v))
            .map(|(k, v)| format!("{k}: expected {v}, got {}", got.get(k).copied().unwrap_or(0)))
            .chain(
                got.iter()
                    .filter(|(k, _)| !exp.outcomes.contains_key(*k))
                    .map(|(k, v)| format!("{k}: expected 0, got {v}")),
            )
            .collect();
        return Some(Discrepancy {
            props: vec!["C10", "C02", "C04", "C18"],
            at: "multiset of call outcomes".into(),
            expected: "every position of every chain / every ordered slot handed out exactly once".into(),
            observed: format!("{diff:?}"),
        });
    }
    let mut counters: Vec<(String, usize, usize)> = trace
        .snap
        .patterns
        .iter()
        .map(|p| (format!("{}::{}", p.trait_ident, p.method_ident), p.index, p.count))
        .collect();
    counters.sort();
    if counters != exp.counters {
        return Some(Discrepancy {
            props: vec!["C10", "C03"],
            at: "match counters after join".into(),
            expected: format!("{:?}", exp.counters),
            observed: format!("{counters:?}"),
        });
    }
    if trace.snap.ordered_index != exp.g {
        return Some(Discrepancy {
            props: vec!["C10", "C04"],
            at: "global ordered index after join".into(),
            expected: format!("{}", exp.g),
            observed: format!("{}", trace.snap.ordered_index),
        });
    }
    if !exp.spec.dontcare && trace.snap.errors.len() != exp.n_errors {
        return Some(Discrepancy {
            props: vec!["C10", "C08"],
            at: "recorded errors after join".into(),
            expected: format!("{}", exp.n_errors),
            observed: format!("{}", trace.snap.errors.len()),
        });
    }
    if exp.spec.dontcare {
        return None;
    }
    let ok = match (&exp.verdict, &trace.final_original) {
        (Verdict::Ok, Obs::Silent) => true,
        (Verdict::Errors(_), Obs::PanicString(t)) => crate::check::contains_all_errors(t, &trace.snap.errors),
        (Verdict::Lines(ids), Obs::PanicString(t)) => {
            let mut want: Vec<LineId2> = ids
                .iter()
                .map(|l| match l {
                    LineId::Pattern(u) => LineId2::Pattern(*u),
                    LineId::NeverCalled(m) => LineId2::NeverCalled(m.path()),
                })
                .collect();
            want.sort();
            parse_verification(t, &exp.spec).map(|g| g == want).unwrap_or(false)
        }
        _ => false,
    };
    if !ok {
        return Some(Discrepancy {
            props: vec!["C10", "C03"],
            at: "verification after join".into(),
            expected: format!("{:?} (the verdict of the same calls made sequentially)", exp.verdict),
            observed: format!("{:?}", trace.final_original),
        });
    }
    None
}
