//! Instrumented value types for C12 / C13 / C17: every construction, clone and drop is logged in a registry
//! keyed by a unique id (never by address, so leak detectors are not confused by the monitor).

use std::sync::atomic::{AtomicU32, AtomicU64, Ordering};
use std::sync::Mutex;
use std::task::Poll;

use unimock::*;

#[derive(Clone, Debug, Default)]
pub struct Info {
    pub parent: Option<u32>,
    pub drops: u32,
    /// logical time of the first drop
    pub dropped_at: u64,
    pub created_at: u64,
}

pub struct Registry {
    pub infos: Vec<Info>,
}

static REG: Mutex<Registry> = Mutex::new(Registry { infos: Vec::new() });
static NEXT: AtomicU32 = AtomicU32::new(0);
static CLOCK: AtomicU64 = AtomicU64::new(1);

pub fn now() -> u64 {
    CLOCK.fetch_add(1, Ordering::SeqCst)
}

fn reg() -> std::sync::MutexGuard<'static, Registry> {
    REG.lock().unwrap_or_else(|e| e.into_inner())
}

pub fn reset() {
    reg().infos.clear();
    NEXT.store(0, Ordering::SeqCst);
}

fn new_id(parent: Option<u32>) -> u32 {
    let mut r = reg();
    let id = r.infos.len() as u32;
    r.infos.push(Info {
        parent,
        drops: 0,
        dropped_at: 0,
        created_at: now(),
    });
    id
}

fn note_drop(id: u32) {
    let t = now();
    let mut r = reg();
    if let Some(i) = r.infos.get_mut(id as usize) {
        i.drops += 1;
        if i.drops == 1 {
            i.dropped_at = t;
        }
    }
}

pub fn info(id: u32) -> Info {
    reg().infos.get(id as usize).cloned().unwrap_or_default()
}

pub fn drops(id: u32) -> u32 {
    info(id).drops
}

pub fn all_infos() -> Vec<Info> {
    reg().infos.clone()
}

/// Not `Clone`: can only be configured as a single-use return value.
#[derive(Debug)]
pub struct Tok {
    pub id: u32,
}

impl Tok {
    pub fn new() -> Tok {
        Tok { id: new_id(None) }
    }
}

impl Default for Tok {
    fn default() -> Self {
        Tok::new()
    }
}

impl Drop for Tok {
    fn drop(&mut self) {
        note_drop(self.id);
    }
}

/// `Clone`: every clone gets a fresh id and remembers the id it was cloned from.
#[derive(Debug)]
pub struct CTok {
    pub id: u32,
}

impl CTok {
    pub fn new() -> CTok {
        CTok { id: new_id(None) }
    }
}

impl Default for CTok {
    fn default() -> Self {
        CTok::new()
    }
}

impl Clone for CTok {
    fn clone(&self) -> Self {
        CTok {
            id: new_id(Some(self.id)),
        }
    }
}

impl Drop for CTok {
    fn drop(&mut self) {
        note_drop(self.id);
    }
}

/// A lendable value with contents that can be re-validated.
#[derive(Debug)]
pub struct Val {
    pub id: u32,
    pub payload: [u64; 3],
}

impl Val {
    pub fn new() -> Val {
        let id = new_id(None);
        Val {
            id,
            payload: Val::payload_for(id),
        }
    }
    pub fn payload_for(id: u32) -> [u64; 3] {
        let a = crate::prng::mix(id as u64 + 77);
        [a, a.rotate_left(17) ^ 0xabcdef, !a]
    }
    pub fn intact(&self) -> bool {
        self.payload == Val::payload_for(self.id)
    }
}

impl Default for Val {
    fn default() -> Self {
        Val::new()
    }
}

impl Drop for Val {
    fn drop(&mut self) {
        note_drop(self.id);
    }
}

#[unimock(api=TMock)]
pub trait T {
    fn t_tok(&self, x: u8) -> Tok;
    fn t_ctok(&self, x: u8) -> CTok;
    fn t_opt(&self, x: u8) -> Option<Tok>;
    fn t_res_mix(&self, x: u8) -> Result<&str, Tok>;
    fn t_tup_mix(&self, x: u8) -> (Tok, &str);
    fn t_opt_mix(&self, x: u8) -> Option<Result<&str, Tok>>;
    fn t_poll_mix(&self, x: u8) -> Poll<Result<&str, Tok>>;
    fn t_tup4(&self, x: u8) -> (&Val, Tok, &str, Tok);
    fn t_res_c(&self, x: u8) -> Result<&str, CTok>;
    fn t_tup_c(&self, x: u8) -> (CTok, &str);
    fn t_poll_c(&self, x: u8) -> Poll<Result<&str, CTok>>;
    fn t_opt_c(&self, x: u8) -> Option<Result<&str, CTok>>;
    fn t_tup4_c(&self, x: u8) -> (&Val, CTok, &str, CTok);
    /// an argument whose `Debug` rendering panics: it may only be rendered when a message about the call is needed
    fn t_arg(&self, a: NoRender) -> Tok;
}

/// Rendering this argument is a (user) panic.
pub struct NoRender(pub u8);
impl std::fmt::Debug for NoRender {
    fn fmt(&self, _: &mut std::fmt::Formatter<'_>) -> std::fmt::Result {
        std::panic::panic_any(crate::universe::UserPanic("debug"))
    }
}

#[unimock(api=LMock)]
pub trait L {
    fn l_ref(&self, x: u8) -> &Val;
    fn l_str(&self, x: u8) -> &str;
    fn l_mut(&mut self, x: u8) -> &mut Val;
    fn l_opt(&self, x: u8) -> Option<&Val>;
    fn l_num(&mut self, x: u8) -> u32;
    /// runs on the delegation helper
    fn l_default(&self, x: u8) -> &Val {
        self.l_ref(x)
    }
    /// a `&mut self` provided method which lends nothing
    fn l_touch(&mut self, x: u8) -> u32 {
        self.l_num(x) + 1
    }
    /// a `Pin<&mut Self>` provided method which lends nothing (it only looks at a lent string)
    fn l_touch_pin(self: std::pin::Pin<&mut Self>, x: u8) -> u32 {
        self.as_ref().get_ref().l_str(x).len() as u32 + 29
    }
}
