//! C10 (and the concurrent facet of C08): concurrent histories on a shared mock, recorded at the client
//! boundary with a logical clock, checked for linearizability against Spec-M.

use std::collections::HashSet;
use std::panic::{catch_unwind, AssertUnwindSafe};
use std::sync::atomic::{AtomicU64, Ordering};

use unimock::verif::{snapshot, Snapshot};
use unimock::Unimock;

use crate::case::*;
use crate::check::{parse_verification, Discrepancy, LineId2};
use crate::exec::{classify_payload, Obs};
use crate::gen::{gen_clauses, Profile};
use crate::prng::Rng;
use crate::sched::{run_controlled, ExecInfo, Strategy};
use crate::spec::*;
use crate::universe::*;

#[derive(Clone, Debug, PartialEq, Eq, Hash)]
pub struct ThreadProg {
    /// true: the thread calls through its own clone; false: through a shared `&Unimock` (the original)
    pub own_clone: bool,
    pub calls: Vec<(MethodId, Vec<u8>)>,
}

#[derive(Clone, Debug, PartialEq, Eq, Hash)]
pub struct ConcCase {
    pub partial: bool,
    pub clauses: ClauseTree,
    pub threads: Vec<ThreadProg>,
}

impl std::fmt::Display for ConcCase {
    fn fmt(&self, f: &mut std::fmt::Formatter<'_>) -> std::fmt::Result {
        write!(
            f,
            "{} {} ;",
            if self.partial { "new_partial" } else { "new" },
            self.clauses
        )?;
        for (i, t) in self.threads.iter().enumerate() {
            write!(f, " T{i}{}:", if t.own_clone { "(clone)" } else { "(&shared)" })?;
            for (m, a) in &t.calls {
                write!(f, " {}{:?}", m.method_name(), a)?;
            }
            write!(f, " |")?;
        }
        Ok(())
    }
}

impl ConcCase {
    pub fn hash64(&self) -> u64 {
        use std::hash::{Hash, Hasher};
        let mut h = std::collections::hash_map::DefaultHasher::new();
        self.hash(&mut h);
        h.finish()
    }
}

pub fn conc_profile() -> Profile {
    let mut p = Profile::base("C10-concurrent");
    p.method_pool = vec![
        MethodId::A0,
        MethodId::A1,
        MethodId::A2,
        MethodId::A3,
        MethodId::B0,
    ];
    // B1 (default body calling b0) and a2(_, 2) (real function calling a1) are left out: a nested call made by
    // user code is a separate operation with its own linearization point, which this history format (one record
    // per top-level call) cannot express
    p.n_methods = (1, 2);
    p.pats_per_method = (1, 3);
    p.pct_ordered = 45;
    p.max_segs = 4;
    p.max_count = 2;
    p.resp_weights = [12, 1, 1, 2, 1, 1, 1];
    p.pct_stub = 20;
    p.pct_nofunc = 0;
    p.pct_nodebug = 0;
    p.pct_full_mask = 60;
    p.pct_build_error = 0;
    p.pct_partial = 20;
    p
}

pub fn gen_conc_case(rng: &mut Rng, max_threads: usize, max_calls: usize) -> ConcCase {
    let prof = conc_profile();
    let cfg = crate::build_cfg();
    loop {
        let partial = rng.below(100) < prof.pct_partial;
        let clauses = gen_clauses(rng, &prof, cfg);
        let Ok(spec) = Spec::build(partial, &clauses, cfg, Variant::True) else {
            continue;
        };
        let mentioned: Vec<MethodId> = spec.methods.keys().copied().collect();
        if mentioned.is_empty() {
            continue;
        }
        let n_threads = rng.range(2, max_threads);
        let mut threads = vec![];
        for _ in 0..n_threads {
            let n_calls = rng.range(1, max_calls);
            let mut calls = vec![];
            for _ in 0..n_calls {
                let m = if rng.chance(1, 12) {
                    *rng.pick(&prof.method_pool)
                } else {
                    *rng.pick(&mentioned)
                };
                // biased towards accepted arguments so that threads contend for the same patterns
                let args = {
                    let pats: Vec<&PatRt> = spec.pats.iter().filter(|p| p.method == m).collect();
                    if !pats.is_empty() && rng.chance(4, 5) {
                        let p = rng.pick(&pats);
                        let codes: Vec<usize> = (0..m.domain_size())
                            .filter(|c| p.mask & (1 << c) != 0)
                            .collect();
                        if codes.is_empty() {
                            m.args_from_code(rng.below(m.domain_size()))
                        } else {
                            m.args_from_code(*rng.pick(&codes))
                        }
                    } else {
                        m.args_from_code(rng.below(m.domain_size()))
                    }
                };
                let args = if m == MethodId::A2 && args[1] == 2 {
                    vec![args[0], 1]
                } else {
                    args
                };
                calls.push((m, args));
            }
            threads.push(ThreadProg {
                own_clone: rng.chance(1, 2),
                calls,
            });
        }
        return ConcCase {
            partial,
            clauses,
            threads,
        };
    }
}

#[derive(Clone, Debug)]
pub struct CallRec {
    pub thread: usize,
    pub idx: usize,
    pub method: MethodId,
    pub args: Vec<u8>,
    pub invoke: u64,
    pub ret: u64,
    pub obs: Obs,
}

#[derive(Debug)]
pub struct ConcTrace {
    pub calls: Vec<CallRec>,
    pub snap: Snapshot,
    pub clone_drops: Vec<Obs>,
    pub final_original: Obs,
    pub exec: ExecInfo,
}

fn guarded<R>(f: impl FnOnce() -> R) -> Result<R, Obs> {
    catch_unwind(AssertUnwindSafe(f)).map_err(classify_payload)
}

/// Execute the case; `strategy` = None means free-running real threads (stress), released by a barrier.
pub fn run_conc(case: &ConcCase, strategy: Option<Strategy>) -> Option<ConcTrace> {
    ctx_reset();
    // the callback event log is not part of the concurrent oracle
    LOG_EVENTS.store(false, std::sync::atomic::Ordering::SeqCst);
    let original = guarded(|| {
        let clause = build_clause(&case.clauses);
        if case.partial {
            Unimock::new_partial(clause)
        } else {
            Unimock::new(clause)
        }
    })
    .ok()?;
    let clones: Vec<Option<Unimock>> = case
        .threads
        .iter()
        .map(|t| if t.own_clone { Some(original.clone()) } else { None })
        .collect();

    let clock = AtomicU64::new(0);
    let records: std::sync::Mutex<Vec<CallRec>> = std::sync::Mutex::new(vec![]);
    let barrier = std::sync::Barrier::new(case.threads.len());

    let mut bodies: Vec<Box<dyn FnOnce() + Send + '_>> = vec![];
    for (tid, prog) in case.threads.iter().enumerate() {
        let inst: &Unimock = clones[tid].as_ref().unwrap_or(&original);
        let clock = &clock;
        let records = &records;
        let barrier = &barrier;
        let free_running = strategy.is_none();
        bodies.push(Box::new(move || {
            if free_running {
                barrier.wait();
            }
            for (idx, (method, args)) in prog.calls.iter().enumerate() {
                let invoke = clock.fetch_add(1, Ordering::SeqCst);
                let r = guarded(|| call_method(inst, *method, args));
                let ret = clock.fetch_add(1, Ordering::SeqCst);
                let obs = match r {
                    Ok(v) => Obs::Value(v),
                    Err(o) => o,
                };
                records.lock().unwrap().push(CallRec {
                    thread: tid,
                    idx,
                    method: *method,
                    args: args.clone(),
                    invoke,
                    ret,
                    obs,
                });
            }
        }));
    }

    let exec = match strategy {
        Some(s) => run_controlled(bodies, s),
        None => {
            std::thread::scope(|scope| {
                for b in bodies {
                    scope.spawn(b);
                }
            });
            ExecInfo::default()
        }
    };

    let snap = snapshot(&original);
    let mut clone_drops = vec![];
    for c in clones.into_iter().flatten() {
        clone_drops.push(match guarded(move || drop(c)) {
            Ok(()) => Obs::Silent,
            Err(o) => o,
        });
    }
    let final_original = match guarded(move || drop(original)) {
        Ok(()) => Obs::Silent,
        Err(o) => o,
    };
    let mut calls = records.into_inner().unwrap();
    calls.sort_by_key(|c| c.invoke);
    Some(ConcTrace {
        calls,
        snap,
        clone_drops,
        final_original,
        exec,
    })
}

fn outcome_matches(exp: &Outcome, obs: &Obs) -> bool {
    match (exp, obs) {
        (Outcome::Value(v), Obs::Value(w)) => v == w,
        (Outcome::MockPanic { kind, .. }, Obs::PanicString(msg)) => classify_panic(msg) == Some(*kind),
        (Outcome::UserPanic(a), Obs::UserPanic(b)) => a == b,
        _ => false,
    }
}

pub enum LinResult {
    /// a linearization exists whose final state also matches
    Ok,
    /// none exists
    None { explored: usize },
    /// search cap hit
    Capped,
}

struct Search<'a> {
    calls: &'a [CallRec],
    /// per thread, the indexes (into calls) of its calls in program order
    per_thread: Vec<Vec<usize>>,
    snap: &'a Snapshot,
    final_obs: &'a Obs,
    nodes: usize,
    cap: usize,
    seen: HashSet<(Vec<usize>, Vec<usize>, usize)>,
    final_mismatch: Option<String>,
    /// also require every mock-induced panic message to name the method and the pattern that the sequential
    /// explanation involves at that point
    strict_naming: bool,
    /// weakest reading: any mock-induced panic is accepted where the explanation has some mock-induced panic
    any_mock_panic: bool,
}

impl Search<'_> {
    fn final_ok(&mut self, spec: &Spec) -> bool {
        // counters
        let mut want: Vec<(String, usize, usize)> = spec
            .pats
            .iter()
            .map(|p| (p.method.path(), p.index, p.count))
            .collect();
        let mut got: Vec<(String, usize, usize)> = self
            .snap
            .patterns
            .iter()
            .map(|p| (format!("{}::{}", p.trait_ident, p.method_ident), p.index, p.count))
            .collect();
        want.sort();
        got.sort();
        if want != got {
            self.final_mismatch = Some(format!("counters: linearization gives {want:?}, snapshot {got:?}"));
            return false;
        }
        if spec.g != self.snap.ordered_index {
            self.final_mismatch = Some(format!(
                "global ordered index: linearization gives {}, snapshot {}",
                spec.g, self.snap.ordered_index
            ));
            return false;
        }
        if spec.n_errors != self.snap.errors.len() {
            self.final_mismatch = Some(format!(
                "recorded errors: linearization gives {}, snapshot {}",
                spec.n_errors,
                self.snap.errors.len()
            ));
            return false;
        }
        // verdict
        let verdict = spec.verdict();
        let ok = match (&verdict, self.final_obs) {
            (Verdict::Ok, Obs::Silent) => true,
            (Verdict::Errors(_), Obs::PanicString(text)) => {
                crate::check::contains_all_errors(text, &self.snap.errors)
            }
            (Verdict::Lines(ids), Obs::PanicString(text)) => {
                let mut want: Vec<LineId2> = ids
                    .iter()
                    .map(|l| match l {
                        LineId::Pattern(u) => LineId2::Pattern(*u),
                        LineId::NeverCalled(m) => LineId2::NeverCalled(m.path()),
                    })
                    .collect();
                want.sort();
                parse_verification(text, spec).map(|got| got == want).unwrap_or(false)
            }
            _ => false,
        };
        if !ok {
            self.final_mismatch = Some(format!(
                "verification: linearization gives {verdict:?}, observed {:?}",
                self.final_obs
            ));
        }
        ok
    }

    fn rec(&mut self, spec: &Spec, done: &mut Vec<usize>) -> Option<bool> {
        self.nodes += 1;
        if self.nodes > self.cap {
            return None;
        }
        if done.iter().zip(&self.per_thread).all(|(d, p)| *d == p.len()) {
            return Some(self.final_ok(spec));
        }
        let key = (
            done.clone(),
            spec.pats.iter().map(|p| p.count).collect::<Vec<_>>(),
            spec.g * 1000 + spec.n_errors,
        );
        if !self.seen.insert(key) {
            return Some(false);
        }
        // candidates: next call of each thread, unless some other pending call returned before it was invoked
        let pending: Vec<usize> = (0..self.per_thread.len())
            .filter(|&t| done[t] < self.per_thread[t].len())
            .map(|t| self.per_thread[t][done[t]])
            .collect();
        let min_ret = pending.iter().map(|&c| self.calls[c].ret).min().unwrap();
        for &c in &pending {
            let call = &self.calls[c];
            if call.invoke > min_ret {
                continue;
            }
            let mut s2 = spec.clone();
            s2.dontcare = false;
            let mut inj = None;
            let mut ev = vec![];
            let exp = s2.call(call.method, &call.args, false, &mut inj, &mut ev);
            let mut ok = outcome_matches(&exp, &call.obs);
            if !ok && self.any_mock_panic {
                ok = matches!((&exp, &call.obs), (Outcome::MockPanic { .. }, Obs::PanicString(m)) if classify_panic(m).is_some());
            }
            if ok && self.strict_naming {
                if let Obs::PanicString(m) = &call.obs {
                    ok = crate::check::naming_ok_with_args(&exp, m, &s2, call.method, &call.args);
                }
            }
            if !ok && s2.dontcare {
                if let Obs::PanicString(m) = &call.obs {
                    if classify_panic(m).is_some() {
                        // don't-care point: the other admissible branch
                        s2.n_errors += 1;
                        ok = true;
                    }
                }
            }
            if !ok {
                continue;
            }
            done[call.thread] += 1;
            let r = self.rec(&s2, done);
            done[call.thread] -= 1;
            match r {
                None => return None,
                Some(true) => return Some(true),
                Some(false) => {}
            }
        }
        Some(false)
    }
}

pub fn linearizable(case: &ConcCase, trace: &ConcTrace, cap: usize) -> (LinResult, Option<String>) {
    linearizable_with(case, trace, cap, false)
}

pub fn linearizable_with(case: &ConcCase, trace: &ConcTrace, cap: usize, strict_naming: bool) -> (LinResult, Option<String>) {
    linearizable_mode(case, trace, cap, strict_naming, false)
}

pub fn linearizable_mode(
    case: &ConcCase,
    trace: &ConcTrace,
    cap: usize,
    strict_naming: bool,
    any_mock_panic: bool,
) -> (LinResult, Option<String>) {
    let cfg = crate::build_cfg();
    let spec = Spec::build(case.partial, &case.clauses, cfg, Variant::True).expect("built before");
    let mut per_thread = vec![vec![]; case.threads.len()];
    let mut order: Vec<usize> = (0..trace.calls.len()).collect();
    order.sort_by_key(|&i| (trace.calls[i].thread, trace.calls[i].idx));
    for i in order {
        per_thread[trace.calls[i].thread].push(i);
    }
    let mut search = Search {
        calls: &trace.calls,
        per_thread,
        snap: &trace.snap,
        final_obs: &trace.final_original,
        nodes: 0,
        cap,
        seen: HashSet::new(),
        final_mismatch: None,
        strict_naming,
        any_mock_panic,
    };
    let mut done = vec![0; case.threads.len()];
    match search.rec(&spec, &mut done) {
        None => (LinResult::Capped, None),
        Some(true) => (LinResult::Ok, None),
        Some(false) => (
            LinResult::None {
                explored: search.nodes,
            },
            search.final_mismatch,
        ),
    }
}

/// Judge one concurrent execution.
pub fn check_conc(case: &ConcCase, trace: &ConcTrace) -> Result<Option<Discrepancy>, String> {
    if trace.exec.deadlock {
        return Err("scheduler deadlock / watchdog".into());
    }
    for (k, d) in trace.clone_drops.iter().enumerate() {
        if *d != Obs::Silent {
            return Ok(Some(Discrepancy {
                props: vec!["C09", "C10"],
                at: format!("drop of clone {k} after join"),
                expected: "silent".into(),
                observed: format!("{d:?}"),
            }));
        }
    }
    // every observed mock panic must be in the shared error list
    let mut observed: Vec<&String> = trace
        .calls
        .iter()
        .filter_map(|c| match &c.obs {
            Obs::PanicString(m) if classify_panic(m).is_some() => Some(m),
            _ => None,
        })
        .collect();
    let mut recorded: Vec<&String> = trace.snap.errors.iter().collect();
    observed.sort();
    recorded.sort();
    if observed != recorded {
        // same number of errors recorded as observed, every observed text is a recorded one, but some thread saw a
        // text twice / not its own: the panic of a call carried the message of another call (C19)
        let misattributed = observed.len() == recorded.len() && observed.iter().all(|m| recorded.contains(m));
        return Ok(Some(Discrepancy {
            props: if misattributed { vec!["C08", "C10", "C19"] } else { vec!["C08", "C10"] },
            at: "after join".into(),
            expected: format!("shared error list = the {} mock panics observed by the threads", observed.len()),
            observed: format!("{recorded:?}"),
        }));
    }
    if let Obs::PanicString(text) = &trace.final_original {
        if let Some(missing) = observed.iter().find(|m| !text.contains(m.as_str())) {
            return Ok(Some(Discrepancy {
                props: vec!["C08"],
                at: "verification after join".into(),
                expected: format!("text containing {missing:?}"),
                observed: text.clone(),
            }));
        }
    } else if !observed.is_empty() {
        return Ok(Some(Discrepancy {
            props: vec!["C08"],
            at: "verification after join".into(),
            expected: "failure forwarding the recorded errors".into(),
            observed: format!("{:?}", trace.final_original),
        }));
    }

    // first with the messages taken into account: if only that fails, the history is explainable but some panic
    // message names a method / pattern that no sequential explanation involves at that point
    match linearizable_with(case, trace, 300_000, true) {
        (LinResult::Ok, _) => return Ok(None),
        (LinResult::Capped, _) => return Err("linearizability search cap hit".into()),
        (LinResult::None { .. }, _) => {}
    }
    match linearizable(case, trace, 300_000) {
        (LinResult::Ok, _) => Ok(Some(Discrepancy {
            props: vec!["C19", "C10"],
            at: "history: panic messages".into(),
            expected: "every mock-induced panic message renders its own call (method and arguments) and names the pattern of the sequential explanation".into(),
            observed: format!(
                "{:?}",
                trace
                    .calls
                    .iter()
                    .filter_map(|c| match &c.obs {
                        Obs::PanicString(m) => Some(format!("T{}#{} {}{:?}: {}", c.thread, c.idx, c.method.method_name(), c.args, m.chars().take(160).collect::<String>())),
                        _ => None,
                    })
                    .collect::<Vec<_>>()
            ),
        })),
        (LinResult::Capped, _) => Err("linearizability search cap hit".into()),
        // explainable only if the *text* of the mock-induced panics is ignored: some call panicked with a message
        // that is not about its own error (e.g. another thread's)
        (LinResult::None { .. }, _) if matches!(linearizable_mode(case, trace, 300_000, false, true).0, LinResult::Ok) => {
            Ok(Some(Discrepancy {
                props: vec!["C19", "C10", "C08"],
                at: "history: panic messages".into(),
                expected: "every mock-induced panic carries the message of its own call's error".into(),
                observed: format!(
                    "{:?}",
                    trace
                        .calls
                        .iter()
                        .filter_map(|c| match &c.obs {
                            Obs::PanicString(m) => Some(format!("T{}#{} {}{:?}: {}", c.thread, c.idx, c.method.method_name(), c.args, m.chars().take(160).collect::<String>())),
                            _ => None,
                        })
                        .collect::<Vec<_>>()
                ),
            }))
        }
        (LinResult::None { explored }, why) => Ok(Some(Discrepancy {
            // no sequential explanation exists: positions (C02), counts/verdict (C03) and - if ordered
            // patterns are involved - the slot sequence (C04) are all not what any sequential run gives
            props: vec!["C10", "C02", "C03", "C04", "C18"],
            at: "history".into(),
            expected: format!(
                "a linearization under Spec-M (explored {explored} nodes){}",
                why.map(|w| format!("; closest complete order failed on {w}")).unwrap_or_default()
            ),
            observed: format!(
                "{:?}",
                trace
                    .calls
                    .iter()
                    .map(|c| format!(
                        "T{}#{} {}{:?} [{}..{}] -> {}",
                        c.thread,
                        c.idx,
                        c.method.method_name(),
                        c.args,
                        c.invoke,
                        c.ret,
                        match &c.obs {
                            Obs::Value(v) => format!("{v}"),
                            Obs::PanicString(m) => format!("panic {:?}", classify_panic(m)),
                            o => format!("{o:?}"),
                        }
                    ))
                    .collect::<Vec<_>>()
            ),
        })),
    }
}
