//! Engine D: every C11 scenario runs in an expendable child process (a double panic aborts the process).
//!
//!   crashbox list                      -> one scenario id per line
//!   crashbox child <scenario id>       -> runs it; the injected panic reaches the top of the thread
//!   crashbox run --jobs J [--filter s] -> runs every scenario in a child, prints one JSON line per scenario
//!
//! A scenario id is `<point>/<topology>/<met|unmet>/<extra clones>`.

use std::fmt::Debug;
use std::io::Read;
use std::process::{Command, Stdio};
use std::rc::Rc;
use std::sync::atomic::{AtomicBool, Ordering};
use std::sync::{mpsc, Arc};

use harness::json::{esc, Obj};
use unimock::*;

static ARMED: AtomicBool = AtomicBool::new(false);

fn armed() -> bool {
    ARMED.load(Ordering::SeqCst)
}

pub struct Arg(pub u8);
impl Debug for Arg {
    fn fmt(&self, f: &mut std::fmt::Formatter<'_>) -> std::fmt::Result {
        if armed() {
            panic!("INJECTED:debug");
        }
        write!(f, "Arg({})", self.0)
    }
}

pub struct Ret(pub u32);
impl Clone for Ret {
    fn clone(&self) -> Self {
        if armed() {
            panic!("INJECTED:clone");
        }
        Ret(self.0)
    }
}

#[unimock(api=KMock, unmock_with=[real_k])]
pub trait K {
    fn k(&self, x: Arg) -> Ret;
}

fn real_k(_: &impl K, _x: Arg) -> Ret {
    if armed() {
        panic!("INJECTED:real");
    }
    Ret(7)
}

#[unimock(api=K2Mock)]
pub trait K2 {
    fn req(&self, x: u8) -> u32;
    fn other(&self) -> u32;
    fn unused(&self) -> u32;
    fn ord1(&self) -> u32;
    fn ord2(&self) -> u32;
    fn single(&self) -> u32;
    fn prov(&self, x: u8) -> u32 {
        if armed() {
            panic!("INJECTED:default");
        }
        self.req(x) + 1
    }
    /// by-value receiver: the original travels through the delegation helper
    fn consume(self, x: u8) -> u32
    where
        Self: Sized,
    {
        if armed() {
            panic!("INJECTED:default");
        }
        self.other() + x as u32
    }
}

const POINTS: &[&str] = &[
    "body-before",
    "body-between",
    "body-after",
    "matcher",
    "answer",
    "real",
    "default",
    "debug",
    "clone",
    "mock-NoMockImpl",
    "mock-NoMatch",
    "mock-NoOutput",
    "mock-WrongOrder",
    "mock-OutOfRange",
    "mock-InputsNotMatched",
    "mock-CannotReturnTwice",
    "mock-CannotUnmock",
    "mock-NoDefaultImpl",
    "mock-Explicit",
];

const TOPOLOGIES: &[&str] = &[
    "caught-then-continue",
    "orig-only",
    "clone-dropped-first",
    "clone-outlives",
    "clone-other-thread",
    "rc",
    "arc",
    "arc-shared-thread",
    "box",
    "box-dyn",
    "by-value",
    "foreign-thread",
    "clone-thread-panics",
    "fixture-verify",
    "thread-caught-then-continue",
    "created-during-unwind",
];

/// what the first panic message must contain
fn expected_marker(point: &str) -> &'static str {
    match point {
        "body-before" | "body-between" | "body-after" => "INJECTED:body",
        "matcher" => "INJECTED:matcher",
        "answer" => "INJECTED:answer",
        "real" => "INJECTED:real",
        "default" => "INJECTED:default",
        "debug" => "INJECTED:debug",
        "clone" => "INJECTED:clone",
        "mock-NoMockImpl" => "No mock implementation found",
        "mock-NoMatch" => "No matching call patterns",
        "mock-NoOutput" => "No output available",
        "mock-WrongOrder" => "matched in wrong order",
        "mock-OutOfRange" => "out of range",
        "mock-InputsNotMatched" => "inputs didn't match",
        "mock-CannotReturnTwice" => "Cannot return value more than once",
        "mock-CannotUnmock" => "cannot be unmocked",
        "mock-NoDefaultImpl" => "has not been set up with default implementation delegation",
        "mock-Explicit" => "Explicit panic",
        _ => "?",
    }
}

fn applicable(point: &str, topology: &str) -> bool {
    match topology {
        // the fault is caught; afterwards the same call must work and verification must judge the counts
        "caught-then-continue" | "thread-caught-then-continue" => {
            matches!(point, "matcher" | "answer" | "real" | "default" | "debug" | "clone")
        }
        // the by-value provided method only reaches its own body and `other()`
        "by-value" => matches!(point, "default" | "mock-NoMockImpl"),
        // Rc is not Send: fine on one thread. box-dyn only exposes K2
        "box-dyn" => !matches!(point, "matcher" | "answer" | "real" | "debug" | "clone" | "mock-NoMatch"),
        _ => true,
    }
}

fn build(point: &str, unmet: bool) -> Unimock {
    let mut c = unimock::verif::DynClause::new();
    let partial = point == "real";
    match point {
        "matcher" => c.push(
            KMock::k
                .each_call(&|m| {
                    m.func(|_, _| {
                        if armed() {
                            panic!("INJECTED:matcher");
                        }
                        true
                    })
                })
                .returns(Ret(1)),
        ),
        "answer" => c.push(KMock::k.each_call(matching!(_)).answers(&|_, _| {
            if armed() {
                panic!("INJECTED:answer");
            }
            Ret(2)
        })),
        "real" => {}
        "default" => c.push(K2Mock::req.each_call(matching!(_)).returns(1u32)),
        "debug" | "mock-NoMatch" => c.push(
            KMock::k
                .each_call(&|m| m.func(|a: &Arg, _| a.0 == 200))
                .returns(Ret(3)),
        ),
        "clone" => c.push(KMock::k.each_call(matching!(_)).returns(Ret(4))),
        "mock-NoOutput" => c.push(K2Mock::req.stub(|each| {
            each.call(matching!(_));
        })),
        "mock-WrongOrder" | "mock-OutOfRange" => {
            c.push(K2Mock::ord1.next_call(matching!()).returns(1u32));
            c.push(K2Mock::ord2.next_call(matching!()).returns(2u32));
        }
        "mock-InputsNotMatched" => c.push(K2Mock::req.next_call(matching!(1)).returns(1u32)),
        "mock-CannotReturnTwice" => c.push(K2Mock::single.some_call(matching!()).returns(1u32)),
        "mock-CannotUnmock" => c.push(K2Mock::req.each_call(matching!(_)).applies_unmocked()),
        "mock-NoDefaultImpl" => c.push(K2Mock::req.each_call(matching!(_)).applies_default_impl()),
        "mock-Explicit" => c.push(K2Mock::req.each_call(matching!(_)).panics("boom")),
        _ => {}
    }
    // something harmless that every scenario can call before the crash point
    if !matches!(point, "mock-NoMockImpl") {
        c.push(K2Mock::other.each_call(matching!()).returns(10u32));
    }
    if unmet {
        c.push(K2Mock::unused.some_call(matching!()).returns(5u32));
    }
    if partial {
        Unimock::new_partial(c)
    } else {
        Unimock::new(c)
    }
}

/// The part of the scenario that runs against an instance and ends in the first panic.
fn body(u: &Unimock, point: &str) {
    if point == "body-before" {
        panic!("INJECTED:body");
    }
    if point != "mock-NoMockImpl" {
        assert_eq!(u.other(), 10);
    }
    if point == "body-between" {
        panic!("INJECTED:body");
    }
    ARMED.store(true, Ordering::SeqCst);
    match point {
        "matcher" | "answer" | "real" | "clone" => {
            let _ = u.k(Arg(1));
        }
        "debug" | "mock-NoMatch" => {
            if point == "mock-NoMatch" {
                ARMED.store(false, Ordering::SeqCst);
            }
            let _ = u.k(Arg(1));
        }
        "default" => {
            let _ = u.prov(1);
        }
        "mock-NoMockImpl" => {
            let _ = u.other();
        }
        "mock-NoOutput" | "mock-CannotUnmock" | "mock-NoDefaultImpl" | "mock-Explicit" => {
            let _ = u.req(1);
        }
        "mock-WrongOrder" => {
            let _ = u.ord2();
        }
        "mock-OutOfRange" => {
            let _ = u.ord1();
            let _ = u.ord2();
            let _ = u.ord1();
        }
        "mock-InputsNotMatched" => {
            let _ = u.req(2);
        }
        "mock-CannotReturnTwice" => {
            let _ = u.single();
            let _ = u.single();
        }
        "body-after" => {
            ARMED.store(false, Ordering::SeqCst);
            panic!("INJECTED:body");
        }
        _ => {}
    }
    // not reached for a correctly injected fault
    eprintln!("SCENARIO-DID-NOT-PANIC");
}

fn body_dyn(u: &dyn K2, point: &str) {
    if point == "body-before" {
        panic!("INJECTED:body");
    }
    if point != "mock-NoMockImpl" {
        assert_eq!(u.other(), 10);
    }
    if point == "body-between" {
        panic!("INJECTED:body");
    }
    ARMED.store(true, Ordering::SeqCst);
    match point {
        "default" => {
            let _ = u.prov(1);
        }
        "mock-NoMockImpl" => {
            let _ = u.other();
        }
        "mock-NoOutput" | "mock-CannotUnmock" | "mock-NoDefaultImpl" | "mock-Explicit" => {
            let _ = u.req(1);
        }
        "mock-WrongOrder" => {
            let _ = u.ord2();
        }
        "mock-OutOfRange" => {
            let _ = u.ord1();
            let _ = u.ord2();
            let _ = u.ord1();
        }
        "mock-InputsNotMatched" => {
            let _ = u.req(2);
        }
        "mock-CannotReturnTwice" => {
            let _ = u.single();
            let _ = u.single();
        }
        "body-after" => {
            ARMED.store(false, Ordering::SeqCst);
            panic!("INJECTED:body");
        }
        _ => {}
    }
    eprintln!("SCENARIO-DID-NOT-PANIC");
}

fn child(id: &str) {
    let parts: Vec<&str> = id.split('/').collect();
    let (point, topology, unmet, extra) = (
        parts[0],
        parts[1],
        parts[2] == "unmet",
        parts[3].parse::<usize>().unwrap_or(0),
    );
    // extra clones that are alive in locals declared *before* the original: they outlive it during unwinding
    let mut outliving: Vec<Unimock> = vec![];
    let mut parked = vec![];
    match topology {
        "caught-then-continue" => {
            // silence the default hook for the caught panic, keep it for everything else
            let u = build(point, false);
            let extra_clone = if extra > 0 { Some(u.clone()) } else { None };
            let target: &Unimock = extra_clone.as_ref().unwrap_or(&u);
            let r = std::panic::catch_unwind(std::panic::AssertUnwindSafe(|| body(target, point)));
            if r.is_ok() {
                eprintln!("SCENARIO-DID-NOT-PANIC");
            }
            ARMED.store(false, Ordering::SeqCst);
            // the same calls again, unarmed: they must complete normally
            let again = std::panic::catch_unwind(std::panic::AssertUnwindSafe(|| match point {
                "matcher" | "answer" | "real" | "clone" => {
                    let _ = target.k(Arg(1));
                }
                "debug" => {
                    // strict mock with a rejecting pattern: the call fails with a mock error (now renderable)
                    let _ = std::panic::catch_unwind(std::panic::AssertUnwindSafe(|| target.k(Arg(1))));
                }
                "default" => {
                    let _ = target.prov(1);
                }
                _ => {}
            }));
            if let Err(p) = again {
                let msg = p
                    .downcast_ref::<String>()
                    .cloned()
                    .or(p.downcast_ref::<&str>().map(|s| s.to_string()))
                    .unwrap_or_default();
                eprintln!("CONTINUE-FAILED after a caught {point} panic the same call panics: {msg}");
                std::process::exit(1);
            }
            drop(extra_clone);
            // `other` was called: with `unmet` false everything mentioned has been matched, except after
            // the debug scenario which legitimately recorded a mock error
            let v = std::panic::catch_unwind(std::panic::AssertUnwindSafe(move || drop(u)));
            let verification_failed = v.is_err();
            if verification_failed != (point == "debug") {
                eprintln!("CONTINUE-FAILED verification after a caught {point} panic: failed={verification_failed}");
                std::process::exit(1);
            }
            eprintln!("CONTINUE-OK");
            // uniform protocol with the other scenarios: exit like a reported panic
            std::process::exit(101);
        }
        "thread-caught-then-continue" => {
            // a worker thread that owns a clone dies from the user fault (its clone is dropped while that thread
            // unwinds); the test thread handles the join error, repeats the call on the original and lets it verify:
            // user panics leave no trace, verification judges the counts
            let u = build(point, false);
            let mut handles = vec![];
            for _ in 0..=extra {
                let c = u.clone();
                let p = point.to_string();
                handles.push(std::thread::spawn(move || {
                    let c = c;
                    body(&c, &p);
                }));
                // one worker at a time: ARMED is global
                let h = handles.pop().unwrap();
                if h.join().is_ok() {
                    eprintln!("SCENARIO-DID-NOT-PANIC");
                }
                ARMED.store(false, Ordering::SeqCst);
                if point == "debug" {
                    break;
                }
            }
            let again = std::panic::catch_unwind(std::panic::AssertUnwindSafe(|| match point {
                "matcher" | "answer" | "real" | "clone" => {
                    let _ = u.k(Arg(1));
                }
                "debug" => {
                    let _ = std::panic::catch_unwind(std::panic::AssertUnwindSafe(|| u.k(Arg(1))));
                }
                "default" => {
                    let _ = u.prov(1);
                }
                _ => {}
            }));
            if again.is_err() {
                eprintln!("CONTINUE-FAILED after a {point} panic on a worker thread the same call panics on the original");
                std::process::exit(1);
            }
            let v = std::panic::catch_unwind(std::panic::AssertUnwindSafe(move || drop(u)));
            let verification_failed = v.is_err();
            if verification_failed != (point == "debug") {
                let msg = v
                    .err()
                    .map(|p| {
                        p.downcast_ref::<String>()
                            .cloned()
                            .or(p.downcast_ref::<&str>().map(|s| s.to_string()))
                            .unwrap_or_default()
                    })
                    .unwrap_or_default();
                eprintln!("CONTINUE-FAILED verification after a {point} panic on a worker thread: failed={verification_failed} {msg}");
                std::process::exit(1);
            }
            eprintln!("CONTINUE-OK");
            std::process::exit(101);
        }
        "orig-only" => {
            let u = build(point, unmet);
            for _ in 0..extra {
                outliving.push(u.clone());
            }
            body(&u, point);
        }
        "clone-dropped-first" => {
            let u = build(point, unmet);
            let c = u.clone();
            body(&c, point);
        }
        "clone-outlives" => {
            let c;
            let u = build(point, unmet);
            c = u.clone();
            for _ in 0..extra {
                outliving.push(u.clone());
            }
            let _keep = &c;
            body(&u, point);
        }
        "clone-other-thread" => {
            let u = build(point, unmet);
            for _ in 0..=extra {
                let c = u.clone();
                let (tx, rx) = mpsc::channel::<()>();
                let (ready_tx, ready_rx) = mpsc::channel::<()>();
                let h = std::thread::spawn(move || {
                    let _c = c;
                    let _ = ready_tx.send(());
                    let _ = rx.recv();
                });
                let _ = ready_rx.recv();
                parked.push((tx, h));
            }
            body(&u, point);
        }
        "rc" => {
            let u = Rc::new(build(point, unmet));
            let u2 = u.clone();
            body(&u2, point);
        }
        "arc" => {
            let u = Arc::new(build(point, unmet));
            body(&u, point);
        }
        "arc-shared-thread" => {
            // the last owner of the Arc is a worker thread which is the one that panics
            let u = Arc::new(build(point, unmet));
            let u2 = u.clone();
            let point = point.to_string();
            let (go_tx, go_rx) = mpsc::channel::<()>();
            let h = std::thread::spawn(move || {
                let u = u2;
                // only start once the main thread has given up its handle: this thread is the last owner
                let _ = go_rx.recv();
                body(&u, &point);
            });
            drop(u);
            let _ = go_tx.send(());
            if h.join().is_err() {
                std::process::exit(101);
            }
        }
        "box" => {
            let u = Box::new(build(point, unmet));
            body(&u, point);
        }
        "box-dyn" => {
            let u: Box<dyn K2> = Box::new(build(point, unmet));
            body_dyn(u.as_ref(), point);
        }
        "by-value" => {
            let u = build(point, unmet);
            for _ in 0..extra {
                outliving.push(u.clone());
            }
            if point == "default" {
                ARMED.store(true, Ordering::SeqCst);
            }
            let _ = u.consume(1);
            eprintln!("SCENARIO-DID-NOT-PANIC");
        }
        "created-during-unwind" => {
            // cleanup code that runs while the thread unwinds creates (and drops) a mock of its own: like any other
            // Unimock dropped on an unwinding thread it must stay silent, whatever its expectations
            struct Cleanup(bool, usize);
            impl Drop for Cleanup {
                fn drop(&mut self) {
                    let u = build("body-before", self.0);
                    let clones: Vec<Unimock> = (0..self.1).map(|_| u.clone()).collect();
                    if !self.0 {
                        let _ = u.other();
                    }
                    drop(u);
                    drop(clones);
                }
            }
            let _cleanup = Cleanup(unmet, extra);
            let u = build(point, unmet);
            body(&u, point);
        }
        "fixture-verify" => {
            // a test fixture / scope guard that finishes the mock explicitly from its destructor: while the thread
            // is unwinding, that explicit verification must stay as silent as a plain drop
            struct Fixture(Option<Unimock>);
            impl Drop for Fixture {
                fn drop(&mut self) {
                    if let Some(u) = self.0.take() {
                        u.verify();
                    }
                }
            }
            let f = Fixture(Some(build(point, unmet)));
            for _ in 0..extra {
                outliving.push(f.0.as_ref().unwrap().clone());
            }
            body(f.0.as_ref().unwrap(), point);
        }
        "foreign-thread" => {
            let u = build(point, unmet);
            let point = point.to_string();
            let h = std::thread::spawn(move || {
                let u = u;
                body(&u, &point);
            });
            if h.join().is_err() {
                std::process::exit(101);
            }
        }
        "clone-thread-panics" => {
            let u = build(point, unmet);
            let c = u.clone();
            let p = point.to_string();
            let h = std::thread::spawn(move || {
                let c = c;
                body(&c, &p);
            });
            let joined = h.join();
            // the original is now dropped normally on its own thread; it may legitimately fail verification
            let r = std::panic::catch_unwind(std::panic::AssertUnwindSafe(move || drop(u)));
            if joined.is_err() || r.is_err() {
                std::process::exit(101);
            }
        }
        other => {
            eprintln!("unknown topology {other}");
            std::process::exit(3);
        }
    }
    drop(outliving);
    drop(parked);
}

fn scenarios() -> Vec<String> {
    let mut out = vec![];
    for p in POINTS {
        for t in TOPOLOGIES {
            if !applicable(p, t) {
                continue;
            }
            for unmet in ["met", "unmet"] {
                let extras: &[usize] = match *t {
                    "orig-only" | "clone-outlives" | "clone-other-thread" | "by-value" | "caught-then-continue"
                    | "fixture-verify" | "thread-caught-then-continue" | "created-during-unwind" => &[0, 2],
                    _ => &[0],
                };
                for e in extras {
                    out.push(format!("{p}/{t}/{unmet}/{e}"));
                }
                // the same scenario with a stderr that rejects every write (ENOSPC): whatever the mock prints while
                // the thread unwinds must not turn into a second panic
                if matches!(*t, "orig-only" | "clone-dropped-first" | "foreign-thread") {
                    out.push(format!("{p}/{t}/{unmet}/0/fullerr"));
                }
            }
        }
    }
    out
}

fn run(args: &[String]) {
    let jobs: usize = args
        .iter()
        .position(|a| a == "--jobs")
        .and_then(|i| args.get(i + 1))
        .and_then(|s| s.parse().ok())
        .unwrap_or(16);
    let filter = args
        .iter()
        .position(|a| a == "--filter")
        .and_then(|i| args.get(i + 1).cloned());
    let exe = std::env::current_exe().unwrap();
    let list: Vec<String> = scenarios()
        .into_iter()
        .filter(|s| filter.as_ref().map(|f| s.contains(f.as_str())).unwrap_or(true))
        .collect();
    let next = std::sync::atomic::AtomicUsize::new(0);
    let out = std::sync::Mutex::new(Vec::new());
    std::thread::scope(|scope| {
        for _ in 0..jobs {
            scope.spawn(|| loop {
                let i = next.fetch_add(1, Ordering::SeqCst);
                if i >= list.len() {
                    break;
                }
                let id = &list[i];
                let fullerr = id.ends_with("/fullerr");
                let child_id = id.trim_end_matches("/fullerr");
                let child_stderr = if fullerr {
                    match std::fs::OpenOptions::new().write(true).open("/dev/full") {
                        Ok(f) => Stdio::from(f),
                        Err(_) => Stdio::null(),
                    }
                } else {
                    Stdio::piped()
                };
                let mut child = Command::new(&exe)
                    .args(["child", child_id])
                    .env("RUST_BACKTRACE", "0")
                    .stdout(Stdio::null())
                    .stderr(child_stderr)
                    .spawn()
                    .expect("spawn");
                let mut stderr = String::new();
                // watchdog: a hung child (parked threads) is killed after 20 s
                let start = std::time::Instant::now();
                let status = loop {
                    match child.try_wait().expect("wait") {
                        Some(s) => break Some(s),
                        None => {
                            if start.elapsed().as_secs() > 20 {
                                let _ = child.kill();
                                let _ = child.wait();
                                break None;
                            }
                            std::thread::sleep(std::time::Duration::from_millis(2));
                        }
                    }
                };
                if let Some(mut e) = child.stderr.take() {
                    let _ = e.read_to_string(&mut stderr);
                }
                let (code, signal) = match status {
                    Some(s) => {
                        use std::os::unix::process::ExitStatusExt;
                        (s.code(), s.signal())
                    }
                    None => (None, Some(-1)),
                };
                let point = id.split('/').next().unwrap();
                let n_panics = stderr.matches("panicked at").count();
                let first = stderr
                    .find("panicked at")
                    .map(|p| {
                        let rest = &stderr[p..];
                        let end = rest[11..].find("panicked at").map(|e| e + 11).unwrap_or(rest.len());
                        rest[..end].to_string()
                    })
                    .unwrap_or_default();
                let line = Obj::new()
                    .str("id", id)
                    .boolean("fullerr", fullerr)
                    .raw("exit_code", code.map(|c| c.to_string()).unwrap_or("null".into()))
                    .raw("signal", signal.map(|c| c.to_string()).unwrap_or("null".into()))
                    .num("panics_reported", n_panics)
                    .boolean("first_panic_is_injected", first.contains(expected_marker(point)))
                    .boolean("did_not_panic", stderr.contains("SCENARIO-DID-NOT-PANIC"))
                    .boolean("continue_ok", stderr.contains("CONTINUE-OK"))
                    .boolean("continue_failed", stderr.contains("CONTINUE-FAILED"))
                    .boolean("abort_text", stderr.contains("panic in a destructor") || stderr.contains("aborting"))
                    .str("first_panic", &first.chars().take(300).collect::<String>())
                    .str("stderr_tail", &stderr.chars().rev().take(300).collect::<String>().chars().rev().collect::<String>())
                    .build();
                out.lock().unwrap().push(line);
            });
        }
    });
    for l in out.into_inner().unwrap() {
        println!("SCENARIO {l}");
    }
    println!("TOTAL {}", esc(&list.len().to_string()));
}

fn main() {
    let args: Vec<String> = std::env::args().collect();
    match args.get(1).map(|s| s.as_str()) {
        Some("list") => scenarios().iter().for_each(|s| println!("{s}")),
        Some("child") => child(&args[2]),
        Some("run") => run(&args),
        _ => {
            eprintln!("usage: crashbox list|child|run");
            std::process::exit(2);
        }
    }
}
