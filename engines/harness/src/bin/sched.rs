//! Engine C: controlled schedules, real-thread stress (C10, C12, C13 and the concurrent facet of C08).
//!
//!   sched run   --what c10|c10-stress|c12|c12-stress|c13|c13-threads --cases N --seed S --jobs J [--execs E]
//!   sched child --what ... --cases N --seed S --worker W
//!   sched replay --what c10 --seed S --worker W --index I [--prefix 0,1,0,..]

use std::collections::HashSet;
use std::process::{Command, Stdio};
use std::time::Instant;

use harness::acc::Acc;
use harness::conc::*;
use harness::exec::install_quiet_panic_hook;
use harness::json::{arr, esc, map_counts, Obj};
use harness::lin12;
use harness::prng::{fnv, mix3, Rng};
use harness::sched::{install_hook, next_dfs_prefix, pct_strategy, Strategy};

fn arg(args: &[String], name: &str) -> Option<String> {
    args.iter()
        .position(|a| a == name)
        .and_then(|i| args.get(i + 1).cloned())
}

fn emit_violation(what: &str, seed: u64, worker: u64, index: u64, d: &harness::check::Discrepancy, case: &str, schedule: &str) {
    let line = Obj::new()
        .str("what", what)
        .raw("tags", arr(d.props.iter().map(|p| esc(p))))
        .num("seed", seed)
        .num("worker", worker)
        .num("index", index)
        .str("at", &d.at)
        .str("expected", &d.expected)
        .str("observed", &d.observed)
        .str("case", case)
        .str("schedule", schedule)
        .build();
    println!("VIOLATION_CASE {line}");
}

fn c10_case(seed: u64, worker: u64, index: u64) -> (ConcCase, Rng) {
    let mut rng = Rng::new(mix3(seed ^ 0xC10, worker, index));
    // small configurations are enumerated exhaustively, larger ones sampled
    let (max_threads, max_calls) = match index % 4 {
        0 => (2, 2),
        1 => (3, 1),
        2 => (3, 2),
        _ => (4, 3),
    };
    let case = gen_conc_case(&mut rng, max_threads, max_calls);
    (case, rng)
}

fn schedule_str(trace: &[u8]) -> String {
    trace.iter().map(|t| t.to_string()).collect::<Vec<_>>().join("")
}

fn run_c10_child(args: &[String], acc: &mut Acc) {
    let seed: u64 = arg(args, "--seed").unwrap().parse().unwrap();
    let worker: u64 = arg(args, "--worker").unwrap().parse().unwrap();
    let cases: u64 = arg(args, "--cases").unwrap().parse().unwrap();
    let execs: usize = arg(args, "--execs").unwrap_or("24".into()).parse().unwrap();
    let dfs_cap: usize = arg(args, "--dfs-cap").unwrap_or("3000".into()).parse().unwrap();
    install_hook();

    for index in 0..cases {
        let (case, mut rng) = c10_case(seed, worker, index);
        acc.cases += 1;
        acc.case_hashes.insert(case.hash64());
        let total_calls: usize = case.threads.iter().map(|t| t.calls.len()).sum();
        if acc.samples.len() < 3 && index % 5 == 1 {
            acc.samples.push(format!("{case}"));
        }
        let small = total_calls <= 4 && case.threads.len() <= 3;
        let mut local: HashSet<u64> = HashSet::new();

        let mut judge = |strategy: Strategy, acc: &mut Acc, local: &mut HashSet<u64>| -> Option<Vec<(u8, u8)>> {
            let trace = run_conc(&case, Some(strategy))?;
            acc.executions += 1;
            let h = fnv(&trace.exec.trace) ^ case.hash64();
            acc.schedules.insert(h);
            local.insert(fnv(&trace.exec.trace));
            for (f, l, k) in &trace.exec.sites {
                let short = f.rsplit("/src/").next().unwrap_or(f);
                acc.sites.insert(format!("{short}:{l}:{k}"));
            }
            for c in &trace.calls {
                match &c.obs {
                    harness::exec::Obs::Value(_) => acc.bump("call_value"),
                    harness::exec::Obs::PanicString(m) => match harness::spec::classify_panic(m) {
                        Some(k) => acc.bump(&format!("call_mockpanic_{k:?}")),
                        None => acc.bump("call_panic_other"),
                    },
                    _ => acc.bump("call_other"),
                }
            }
            // how much real overlap did the schedule produce
            let overlapping = trace
                .calls
                .iter()
                .any(|a| trace.calls.iter().any(|b| a.thread != b.thread && a.invoke < b.ret && b.invoke < a.ret));
            if overlapping {
                acc.bump("executions_with_overlapping_calls");
            }
            match check_conc(&case, &trace) {
                Ok(None) => {}
                Ok(Some(d)) => {
                    acc.violations += 1;
                    if acc.violations <= 5 {
                        emit_violation("c10", seed, worker, index, &d, &format!("{case}"), &schedule_str(&trace.exec.trace));
                    }
                }
                Err(why) => {
                    if acc.inconclusive.len() < 5 {
                        acc.inconclusive.push(format!("case {worker}:{index}: {why}"));
                    }
                }
            }
            Some(trace.exec.choices)
        };

        if small {
            // depth-first enumeration of every schedule (up to the cap)
            let mut prefix: Vec<u8> = vec![];
            let mut n = 0usize;
            let mut exhausted = false;
            loop {
                let Some(choices) = judge(Strategy::Dfs { prefix: prefix.clone() }, acc, &mut local) else {
                    break;
                };
                n += 1;
                match next_dfs_prefix(&choices) {
                    Some(p) => prefix = p,
                    None => {
                        exhausted = true;
                        break;
                    }
                }
                if n >= dfs_cap {
                    break;
                }
            }
            if exhausted {
                acc.exhaustive_cases += 1;
                acc.exhaustive_schedules += n as u64;
            } else {
                acc.bump("dfs_cap_hit");
            }
        } else {
            for e in 0..execs {
                let strategy = if e % 2 == 0 {
                    Strategy::Random(Rng::new(rng.next_u64()))
                } else {
                    pct_strategy(&mut rng, case.threads.len(), 1 + e % 3, 8 * total_calls)
                };
                if judge(strategy, acc, &mut local).is_none() {
                    break;
                }
            }
        }
        acc.bump(&format!("threads_{}", case.threads.len()));
        *acc.stats.entry("distinct_schedules_per_case_sum".into()).or_insert(0) += local.len() as u64;
    }
}

fn run_c10_stress_child(args: &[String], acc: &mut Acc) {
    let seed: u64 = arg(args, "--seed").unwrap().parse().unwrap();
    let worker: u64 = arg(args, "--worker").unwrap().parse().unwrap();
    let cases: u64 = arg(args, "--cases").unwrap().parse().unwrap();
    let threads: usize = arg(args, "--threads").unwrap_or("8".into()).parse().unwrap();
    let calls: usize = arg(args, "--calls").unwrap_or("2000".into()).parse().unwrap();
    // no hook installed: free running real threads
    for index in 0..cases {
        let mut rng = Rng::new(mix3(seed ^ 0x57E55, worker, index));
        let (case, expected) = harness::stress::gen_stress_case(&mut rng, threads, calls);
        acc.cases += 1;
        acc.case_hashes.insert(case.hash64());
        if acc.samples.len() < 2 {
            acc.samples.push(harness::stress::describe(&case));
        }
        let Some(trace) = run_conc(&case, None) else {
            continue;
        };
        acc.executions += 1;
        *acc.stats.entry("stress_calls".into()).or_insert(0) += trace.calls.len() as u64;
        if let Some(d) = harness::stress::check_stress(&case, &expected, &trace) {
            acc.violations += 1;
            if acc.violations <= 5 {
                emit_violation("c10-stress", seed, worker, index, &d, &harness::stress::describe(&case), "free-running");
            }
        }
    }
}

fn child(args: &[String]) {
    install_quiet_panic_hook();
    let what = arg(args, "--what").unwrap();
    let mut acc = Acc::default();
    match what.as_str() {
        "c10" => run_c10_child(args, &mut acc),
        "c10-stress" => run_c10_stress_child(args, &mut acc),
        other => {
            if !lin12::run_child(other, args, &mut acc) {
                eprintln!("unknown --what {other}");
                std::process::exit(2);
            }
        }
    }
    let line = Obj::new()
        .num("cases", acc.cases)
        .num("executions", acc.executions)
        .num("distinct_schedules", acc.schedules.len())
        .num("distinct_cases", acc.case_hashes.len())
        .num("exhaustive_cases", acc.exhaustive_cases)
        .num("exhaustive_schedules", acc.exhaustive_schedules)
        .num("violations", acc.violations)
        .raw("sites", arr(acc.sites.iter().map(|s| esc(s))))
        .raw("inconclusive", arr(acc.inconclusive.iter().map(|s| esc(s))))
        .raw("stats", map_counts(acc.stats.into_iter()))
        .raw("samples", arr(acc.samples.iter().map(|s| esc(s))))
        .build();
    println!("WORKER_SUMMARY {line}");
}

fn run(args: &[String]) {
    let jobs: u64 = arg(args, "--jobs").unwrap_or("16".into()).parse().unwrap();
    let cases: u64 = arg(args, "--cases").unwrap().parse().unwrap();
    let exe = std::env::current_exe().unwrap();
    let t0 = Instant::now();
    let per = (cases + jobs - 1) / jobs;
    let mut passthrough: Vec<String> = vec![];
    let mut i = 2;
    while i < args.len() {
        if args[i] == "--jobs" || args[i] == "--cases" {
            i += 2;
            continue;
        }
        passthrough.push(args[i].clone());
        i += 1;
    }
    let children: Vec<_> = (0..jobs)
        .map(|w| {
            Command::new(&exe)
                .arg("child")
                .args(&passthrough)
                .args(["--worker", &w.to_string(), "--cases", &per.to_string()])
                .stdout(Stdio::piped())
                .stderr(Stdio::null())
                .spawn()
                .expect("spawn")
        })
        .collect();
    let mut dead = vec![];
    for (w, c) in children.into_iter().enumerate() {
        let out = c.wait_with_output().expect("wait");
        for line in String::from_utf8_lossy(&out.stdout).lines() {
            if line.starts_with("VIOLATION_CASE ") || line.starts_with("WORKER_SUMMARY ") {
                println!("{line}");
            }
        }
        if !out.status.success() {
            dead.push(format!("worker {w}: {:?}", out.status));
        }
    }
    println!(
        "RUN_SUMMARY {}",
        Obj::new()
            .num("wall_s", format!("{:.3}", t0.elapsed().as_secs_f64()))
            .raw("dead_workers", arr(dead.iter().map(|s| esc(s))))
            .build()
    );
}

fn replay(args: &[String]) {
    install_quiet_panic_hook();
    let what = arg(args, "--what").unwrap();
    let seed: u64 = arg(args, "--seed").unwrap().parse().unwrap();
    let worker: u64 = arg(args, "--worker").unwrap().parse().unwrap();
    let index: u64 = arg(args, "--index").unwrap().parse().unwrap();
    match what.as_str() {
        "c10" => {
            install_hook();
            let (case, _) = c10_case(seed, worker, index);
            println!("case: {case}");
            // the recorded schedule is a list of thread ids: replay by preferring that thread at each step
            let sched: Vec<u8> = arg(args, "--schedule")
                .map(|s| s.bytes().map(|b| b - b'0').collect())
                .unwrap_or_default();
            println!("schedule (thread chosen at each yield point): {sched:?}");
            // enumerate schedules depth-first until the recorded one is met (small cases) or a violation shows
            let mut prefix: Vec<u8> = vec![];
            for n in 0..20000 {
                let Some(trace) = run_conc(&case, Some(Strategy::Dfs { prefix: prefix.clone() })) else {
                    println!("construction failed");
                    return;
                };
                let verdict = check_conc(&case, &trace);
                if trace.exec.trace == sched || matches!(verdict, Ok(Some(_))) {
                    println!("execution #{n}: schedule {:?}", schedule_str(&trace.exec.trace));
                    for c in &trace.calls {
                        println!("  T{}#{} {}{:?} [{}..{}] -> {:?}", c.thread, c.idx, c.method.method_name(), c.args, c.invoke, c.ret, c.obs);
                    }
                    println!("  final: {:?}", trace.final_original);
                    println!("  verdict: {verdict:#?}");
                    return;
                }
                match next_dfs_prefix(&trace.exec.choices) {
                    Some(p) => prefix = p,
                    None => break,
                }
            }
            println!("schedule not reproduced by depth-first enumeration (sampled strategies are not replayed exactly)");
        }
        _ => println!("replay for {what}: re-run the check with the same VERIF_SEED; the case is {worker}:{index}"),
    }
}

fn main() {
    let args: Vec<String> = std::env::args().collect();
    match args.get(1).map(|s| s.as_str()) {
        Some("run") => run(&args),
        Some("child") => child(&args),
        Some("replay") => replay(&args),
        _ => {
            eprintln!("usage: sched run|child|replay ...");
            std::process::exit(2);
        }
    }
}
