//! Engine A: random mocks interpreted through the real builder, monitored against Spec-M.
//!
//!   dynmock run    --prop C01 --cases N --seed S --jobs J --out DIR     (spawns J children, merges)
//!   dynmock child  --prop C01 --cases N --seed S --worker W --out DIR
//!   dynmock replay --prop C01 --seed S --worker W --index I

use std::collections::{BTreeMap, HashSet};
use std::io::Write;
use std::process::{Command, Stdio};
use std::time::Instant;

use harness::case::*;
use harness::check::{check, CheckResult, Stats};
use harness::exec::{install_quiet_panic_hook, run_case};
use harness::gen::{gen_case, Profile};
use harness::json::{arr, esc, map_counts, Obj};
use harness::meta;
use harness::prng::{mix3, Rng};
use harness::spec::{Variant, ALL_VARIANTS};
use harness::{build_cfg, build_cfg_name};

fn arg(args: &[String], name: &str) -> Option<String> {
    args.iter()
        .position(|a| a == name)
        .and_then(|i| args.get(i + 1).cloned())
}

fn variants_for(prop: &str) -> Vec<Variant> {
    use Variant::*;
    match prop {
        "C01" => vec![LastMatch, SkipExhausted, CountRejected],
        "C02" => vec![SegStrictlyBelow, SegNoAdvance, SingleUseRepeats, ImplicitOnceLost],
        "C03" => vec![NoPlusOne, ExactAsAtLeast, AtLeastStrict, NoNeverCalled, FirstLineOnly],
        "C04" => vec![
            OrderedIndexOnSuccess,
            SlotEndInclusive,
            OrderedPerMethod,
            OrderedIgnoresInputs,
            ImplicitOnceLost,
        ],
        "C07" => vec![
            PartialBeforeDefault,
            UnmatchedPartialPanics,
            StrictUnmentionedUnmocks,
            UnmatchedUsesDefaultBody,
        ],
        "C08" => vec![ErrorsNotForwarded, FirstErrorOnly, ExplicitPanicNotRecorded],
        "C09" => vec![CloneVerifies, LiveCloneIgnored, ThreadIgnored],
        "C14" => vec![TupleReversed, MixedModeTolerated, EmptyStubTolerated],
        "ALL" => ALL_VARIANTS.to_vec(),
        _ => vec![],
    }
}

fn case_for(prop: &str, seed: u64, worker: u64, index: u64, arity_cycle: bool) -> Case {
    let mut rng = Rng::new(mix3(seed, worker, index));
    let mut prof = Profile::for_property(prop);
    if arity_cycle {
        // C14: every tuple arity 2..=16 is forced in turn
        prof.force_arity = 2 + (index % 15) as usize;
        prof.n_methods = (3, 6);
        prof.pats_per_method = (3, 7);
    }
    gen_case(&mut rng, &prof, build_cfg())
}

fn nontrivial(case: &Case) -> bool {
    case.clauses.patterns().len() >= 2 || case.history.len() >= 2
}

fn child(args: &[String]) {
    let prop = arg(args, "--prop").unwrap();
    let seed: u64 = arg(args, "--seed").unwrap().parse().unwrap();
    let worker: u64 = arg(args, "--worker").unwrap().parse().unwrap();
    let cases: u64 = arg(args, "--cases").unwrap().parse().unwrap();
    let out_dir = arg(args, "--out").unwrap();
    install_quiet_panic_hook();
    let cfg = build_cfg();
    let variants = variants_for(&prop);

    let mut stats = Stats::default();
    let mut hashes: HashSet<u64> = HashSet::new();
    let mut distinguishing: BTreeMap<Variant, u64> = variants.iter().map(|v| (*v, 0)).collect();
    let mut other_props: BTreeMap<String, u64> = BTreeMap::new();
    let mut violations = 0u64;
    let mut samples: Vec<String> = vec![];
    let mut arities: BTreeMap<usize, u64> = BTreeMap::new();
    let stdout = std::io::stdout();

    for index in 0..cases {
        let (case, result, extra_disc) = if prop == "C18" {
            let (case, res, stats2) = meta::run_meta_case(seed, worker, index);
            stats.merge(&stats2);
            (case, CheckResult { disc: None, soft: None, dontcare_divergent: false, stats: Stats::default() }, res)
        } else {
            let case = case_for(&prop, seed, worker, index, prop == "C14");
            let trace = run_case(&case);
            let result = check(&case, &trace, cfg, Variant::True);
            if result.disc.is_none() && !result.dontcare_divergent {
                for v in &variants {
                    let r = check(&case, &trace, cfg, *v);
                    if r.disc.is_some() {
                        *distinguishing.get_mut(v).unwrap() += 1;
                    }
                }
            }
            (case, result, None)
        };
        stats.merge(&result.stats);
        stats.bump("cases");
        if nontrivial(&case) {
            hashes.insert(case.hash64());
        }
        {
            let mut present = std::collections::BTreeSet::new();
            case.clauses.arities(&mut present);
            for a in present {
                *arities.entry(a).or_insert(0) += 1;
            }
        }
        if samples.len() < 3 && nontrivial(&case) && index % 7 == 3 {
            samples.push(format!("{case}"));
        }
        let hit = |d: &harness::check::Discrepancy| d.props.iter().any(|p| *p == prop) || prop == "ALL";
        let disc = match (result.disc, result.soft) {
            (Some(d), Some(s)) => {
                if !hit(&d) && hit(&s) {
                    Some(s)
                } else {
                    Some(d)
                }
            }
            (d, s) => d.or(s),
        }
        .or(extra_disc);
        if let Some(d) = disc {
            if hit(&d) {
                violations += 1;
                if violations <= 5 {
                    let line = Obj::new()
                        .str("property", &prop)
                        .raw("tags", arr(d.props.iter().map(|p| esc(p))))
                        .num("seed", seed)
                        .num("worker", worker)
                        .num("index", index)
                        .str("config", build_cfg_name())
                        .str("at", &d.at)
                        .str("expected", &d.expected)
                        .str("observed", &d.observed)
                        .str("case", &format!("{case}"))
                        .build();
                    let mut lock = stdout.lock();
                    let _ = writeln!(lock, "VIOLATION_CASE {line}");
                }
            } else {
                *other_props.entry(d.props.join("+")).or_insert(0) += 1;
            }
        }
    }

    // C04: for a share of the clause sets, every accepted prefix of the expected sequence is extended by
    // every possible next call (method x argument tuple)
    if prop == "C04" {
        let mut local_viol = 0u64;
        let sets = (cases / 40).max(1);
        for k in 0..sets {
            let mut rng = Rng::new(mix3(seed ^ 0xC04, worker, k));
            let mut run_one = |case: Case| {
                let trace = run_case(&case);
                let result = check(&case, &trace, cfg, Variant::True);
                stats.merge(&result.stats);
                stats.bump("prefix_extension_cases");
                hashes.insert(case.hash64());
                if let Some(d) = result.disc.into_iter().chain(result.soft).find(|d| d.props.iter().any(|p| *p == "C04")) {
                    {
                        local_viol += 1;
                        if local_viol <= 3 {
                            let line = Obj::new()
                                .str("property", &prop)
                                .raw("tags", arr(d.props.iter().map(|p| esc(p))))
                                .num("seed", seed)
                                .num("worker", worker)
                                .num("index", k)
                                .str("config", build_cfg_name())
                                .str("at", &d.at)
                                .str("expected", &d.expected)
                                .str("observed", &d.observed)
                                .str("case", &format!("{case}"))
                                .build();
                            println!("VIOLATION_CASE {line}");
                        }
                    }
                }
            };
            harness::gen::c04_prefix_cases(&mut rng, cfg, 600, &mut run_one);
        }
        violations += local_viol;
    }

    // C09: every lifecycle sequence up to a length, in addition to the random ones
    let mut enumerated = 0u64;
    if prop == "C09" {
        let max_len: usize = arg(args, "--enum-len").unwrap_or("4".into()).parse().unwrap();
        let jobs: usize = arg(args, "--jobs").unwrap_or("16".into()).parse().unwrap();
        let mut local_viol = 0u64;
        let mut run_one = |case: Case| {
            let trace = run_case(&case);
            let result = check(&case, &trace, cfg, Variant::True);
            stats.merge(&result.stats);
            stats.bump("enumerated_sequences");
            hashes.insert(case.hash64());
            if let Some(d) = result.disc.into_iter().chain(result.soft).find(|d| d.props.iter().any(|p| *p == "C09")) {
                {
                    local_viol += 1;
                    if local_viol <= 3 {
                        let line = Obj::new()
                            .str("property", &prop)
                            .raw("tags", arr(d.props.iter().map(|p| esc(p))))
                            .num("seed", seed)
                            .num("worker", worker)
                            .num("index", 0)
                            .str("config", build_cfg_name())
                            .str("at", &d.at)
                            .str("expected", &d.expected)
                            .str("observed", &d.observed)
                            .str("case", &format!("{case}"))
                            .build();
                        println!("VIOLATION_CASE {line}");
                    }
                }
            }
        };
        enumerated = harness::gen::enum_lifecycle(max_len, worker as usize, jobs, cfg, &mut run_one);
        violations += local_viol;
    }

    // hashes to a file for cross-worker de-duplication
    let mut sorted: Vec<u64> = hashes.into_iter().collect();
    sorted.sort_unstable();
    let path = format!("{out_dir}/hashes_{worker}.bin");
    let mut bytes = Vec::with_capacity(sorted.len() * 8);
    for h in &sorted {
        bytes.extend_from_slice(&h.to_le_bytes());
    }
    std::fs::write(&path, bytes).expect("write hashes");

    let line = Obj::new()
        .num("worker", worker)
        .num("cases", cases)
        .num("violations", violations)
        .num("enumerated", enumerated)
        .raw("stats", map_counts(stats.0.iter().map(|(k, v)| (k.clone(), *v))))
        .raw(
            "distinguishing",
            map_counts(distinguishing.iter().map(|(k, v)| (format!("{k:?}"), *v))),
        )
        .raw("other_property_discrepancies", map_counts(other_props.into_iter()))
        .raw("max_tuple_arity", map_counts(arities.into_iter()))
        .raw("samples", arr(samples.iter().map(|s| esc(s))))
        .build();
    println!("WORKER_SUMMARY {line}");
}

fn replay(args: &[String]) {
    let prop = arg(args, "--prop").unwrap();
    let seed: u64 = arg(args, "--seed").unwrap().parse().unwrap();
    let worker: u64 = arg(args, "--worker").unwrap().parse().unwrap();
    let index: u64 = arg(args, "--index").unwrap().parse().unwrap();
    install_quiet_panic_hook();
    if prop == "C18" {
        let (case, res, _) = meta::run_meta_case(seed, worker, index);
        println!("case: {case}");
        println!("result: {res:#?}");
        return;
    }
    let case = case_for(&prop, seed, worker, index, prop == "C14");
    println!("config: {}", build_cfg_name());
    println!("case: {case}");
    let trace = run_case(&case);
    println!("build: {:?}", trace.build);
    for (i, (op, o)) in case.history.iter().zip(trace.ops.iter()).enumerate() {
        println!("op {i}: {op} -> {:?}  events={:?}", o.obs, o.events);
        if let Some(s) = &o.snap {
            let counts: Vec<String> = s
                .patterns
                .iter()
                .map(|p| format!("{}::{}#{}={}", p.trait_ident, p.method_ident, p.index, p.count))
                .collect();
            println!("      counters {counts:?} ordered_index={} errors={}", s.ordered_index, s.errors.len());
        }
    }
    println!("final clone drops: {:?}", trace.final_clone_drops);
    println!("final original: {:?}", trace.final_original);
    let r = check(&case, &trace, build_cfg(), Variant::True);
    println!("verdict: {:#?}", r.disc);
    if r.dontcare_divergent {
        println!("(cut short at a don't-care point)");
    }
}

fn run(args: &[String]) {
    let prop = arg(args, "--prop").unwrap();
    let seed: u64 = arg(args, "--seed").unwrap_or("1".into()).parse().unwrap();
    let cases: u64 = arg(args, "--cases").unwrap().parse().unwrap();
    let jobs: u64 = arg(args, "--jobs").unwrap_or("16".into()).parse().unwrap();
    let out_dir = arg(args, "--out").unwrap();
    std::fs::create_dir_all(&out_dir).unwrap();
    let exe = std::env::current_exe().unwrap();
    let t0 = Instant::now();
    let per = (cases + jobs - 1) / jobs;
    let children: Vec<_> = (0..jobs)
        .map(|w| {
            Command::new(&exe)
                .args([
                    "child",
                    "--prop",
                    &prop,
                    "--seed",
                    &seed.to_string(),
                    "--worker",
                    &w.to_string(),
                    "--cases",
                    &per.to_string(),
                    "--out",
                    &out_dir,
                    "--jobs",
                    &jobs.to_string(),
                    "--enum-len",
                    &arg(args, "--enum-len").unwrap_or("4".into()),
                ])
                .stdout(Stdio::piped())
                .stderr(Stdio::null())
                .spawn()
                .expect("spawn child")
        })
        .collect();
    let mut dead = vec![];
    for (w, c) in children.into_iter().enumerate() {
        let out = c.wait_with_output().expect("wait");
        let text = String::from_utf8_lossy(&out.stdout);
        for line in text.lines() {
            if line.starts_with("VIOLATION_CASE ") || line.starts_with("WORKER_SUMMARY ") {
                println!("{line}");
            }
        }
        if !out.status.success() {
            dead.push((w, format!("{:?}", out.status)));
        }
    }
    // merge hash files
    let mut all: Vec<u64> = vec![];
    for w in 0..jobs {
        let path = format!("{out_dir}/hashes_{w}.bin");
        if let Ok(bytes) = std::fs::read(&path) {
            for chunk in bytes.chunks_exact(8) {
                all.push(u64::from_le_bytes(chunk.try_into().unwrap()));
            }
            let _ = std::fs::remove_file(&path);
        }
    }
    all.sort_unstable();
    all.dedup();
    println!(
        "RUN_SUMMARY {}",
        Obj::new()
            .str("config", build_cfg_name())
            .num("distinct_nontrivial", all.len())
            .num("wall_s", format!("{:.3}", t0.elapsed().as_secs_f64()))
            .raw(
                "dead_workers",
                arr(dead.iter().map(|(w, s)| esc(&format!("worker {w}: {s}"))))
            )
            .build()
    );
}

fn main() {
    let args: Vec<String> = std::env::args().collect();
    match args.get(1).map(|s| s.as_str()) {
        Some("run") => run(&args),
        Some("child") => child(&args),
        Some("replay") => replay(&args),
        _ => {
            eprintln!("usage: dynmock run|child|replay ...");
            std::process::exit(2);
        }
    }
}
