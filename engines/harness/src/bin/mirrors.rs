//! C20: the bundled std/core/tokio/futures/embedded-hal mirrors behave like hand-written impls.
//!
//! Differential runs: a *script* (chunk sizes, short reads/writes, Interrupted/other errors, payloads) is replayed
//! (a) by a plain struct implementing the upstream trait's required methods and (b) by a `Unimock` whose required
//! methods are answered by the very same replay functions. Upstream *provided* methods are then driven on both.
//! Results, output buffers and the logged sequence of required-method calls must be identical.
//!
//!   mirrors run --cases N --seed S      -> JSON lines: VIOLATION_CASE / SUMMARY

use std::io::{self, BufRead, IoSlice, IoSliceMut, Read, Seek, SeekFrom, Write};
use std::pin::Pin;
use std::sync::Mutex;
use std::task::{Context, Poll, RawWaker, RawWakerVTable, Waker};

use harness::json::{arr, esc, map_counts, Obj};
use harness::prng::{mix3, Rng};
use unimock::mock::core::fmt::{DebugMock, DisplayMock};
use unimock::mock::core::hash::HasherMock;
use unimock::mock::embedded_hal_1 as ehm;
use unimock::mock::std::io::{BufReadMock, ReadMock, SeekMock, WriteMock};
use unimock::*;

// ------------------------------------------------------------------------------------------------
// replay state shared by the plain structs and the mock's answer functions

#[derive(Clone, Debug)]
enum Step {
    /// accept at most this many bytes / items
    Take(usize),
    Interrupted,
    Fail,
    Eof,
    Pending,
}

struct Replay {
    script: Vec<Step>,
    pos: usize,
    log: Vec<String>,
    data: Vec<u8>,
    data_pos: usize,
    sink: Vec<u8>,
    fill: Vec<u8>,
    /// outcome of every required-method call, for the *ordered* replay families
    recs: Vec<Rec>,
}

/// One required-method call of a plain run and what it produced.
#[derive(Clone, Debug, PartialEq)]
enum Rec {
    Write(Result<usize, io::ErrorKind>),
    Flush(Result<(), io::ErrorKind>),
    Delay(u32),
}

static ST: Mutex<Replay> = Mutex::new(Replay {
    script: vec![],
    pos: 0,
    log: vec![],
    data: vec![],
    data_pos: 0,
    sink: vec![],
    fill: vec![],
    recs: vec![],
});

fn st() -> std::sync::MutexGuard<'static, Replay> {
    ST.lock().unwrap_or_else(|e| e.into_inner())
}

fn reset(script: Vec<Step>, data: Vec<u8>) {
    let mut s = st();
    s.script = script;
    s.pos = 0;
    s.log.clear();
    s.data = data;
    s.data_pos = 0;
    s.sink.clear();
    s.fill.clear();
    s.recs.clear();
}

fn next_step() -> Step {
    let mut s = st();
    let step = s.script.get(s.pos).cloned().unwrap_or(Step::Take(usize::MAX));
    s.pos += 1;
    step
}

fn log(line: String) {
    st().log.push(line);
}

fn take_log() -> Vec<String> {
    std::mem::take(&mut st().log)
}

fn other_err() -> io::Error {
    io::Error::new(io::ErrorKind::Other, "scripted failure")
}

// ---- std::io::Write

fn rp_write(buf: &[u8]) -> io::Result<usize> {
    let r = rp_write_inner(buf);
    st().recs.push(Rec::Write(r.as_ref().map(|n| *n).map_err(|e| e.kind())));
    r
}

fn rp_write_inner(buf: &[u8]) -> io::Result<usize> {
    log(format!("write({buf:?})"));
    match next_step() {
        Step::Take(n) => {
            let n = n.min(buf.len());
            st().sink.extend_from_slice(&buf[..n]);
            Ok(n)
        }
        Step::Interrupted => Err(io::ErrorKind::Interrupted.into()),
        Step::Fail => Err(other_err()),
        Step::Eof | Step::Pending => Ok(0),
    }
}

fn rp_flush() -> io::Result<()> {
    log("flush()".into());
    let r = match next_step() {
        Step::Fail => Err(other_err()),
        _ => Ok(()),
    };
    st().recs.push(Rec::Flush(r.as_ref().map(|_| ()).map_err(|e| e.kind())));
    r
}

// ---- ordered replay: the required calls observed on the plain struct become a chain of `next_call` patterns
// (runs of equal outcomes = one stage with an exact count; neighbouring stages of one method are randomly joined
// into one pattern with a `then()` series or split into separate patterns). Every stage answers with its own recorded
// outcome, so a stage or pattern picked out of turn changes results, logged calls or written bytes.

fn stages_of(recs: &[Rec], rng: &mut Rng) -> Vec<(Rec, usize)> {
    let mut stages: Vec<(Rec, usize)> = vec![];
    for r in recs {
        match stages.last_mut() {
            // a run of equal outcomes is sometimes cut in two
            Some((last, n)) if last == r && !rng.chance(1, 5) => *n += 1,
            _ => stages.push((r.clone(), 1)),
        }
    }
    stages
}

fn same_method(a: &Rec, b: &Rec) -> bool {
    std::mem::discriminant(a) == std::mem::discriminant(b)
}

fn write_answer(rec: Rec) -> std::sync::Arc<dyn Fn(&mut Unimock, &[u8]) -> io::Result<usize> + Send + Sync> {
    std::sync::Arc::new(move |_: &mut Unimock, buf: &[u8]| {
        log(format!("write({buf:?})"));
        match &rec {
            Rec::Write(Ok(n)) => {
                st().sink.extend_from_slice(&buf[..(*n).min(buf.len())]);
                Ok(*n)
            }
            Rec::Write(Err(kind)) => Err(io::Error::new(*kind, "scripted failure")),
            _ => unreachable!(),
        }
    })
}

fn flush_answer(rec: Rec) -> std::sync::Arc<dyn Fn(&mut Unimock) -> io::Result<()> + Send + Sync> {
    std::sync::Arc::new(move |_: &mut Unimock| {
        log("flush()".into());
        match &rec {
            Rec::Flush(Ok(())) => Ok(()),
            Rec::Flush(Err(kind)) => Err(io::Error::new(*kind, "scripted failure")),
            _ => unreachable!(),
        }
    })
}

fn delay_answer(rec: Rec) -> std::sync::Arc<dyn Fn(&mut Unimock, u32) + Send + Sync> {
    std::sync::Arc::new(move |_: &mut Unimock, ns: u32| {
        log(format!("delay_ns({ns})"));
        let _ = &rec;
    })
}

fn ordered_mock(recs: &[Rec], rng: &mut Rng, partial: bool) -> (Unimock, usize) {
    use ehm::delay::DelayNsMock;
    // mixed form: the flush calls are answered by ONE order-independent pattern with exact counts (which never takes
    // part in the ordered sequence, wherever it is declared); only the writes stay ordered
    let flushes: Vec<Rec> = recs.iter().filter(|r| matches!(r, Rec::Flush(_))).cloned().collect();
    let mixed = !flushes.is_empty() && rng.chance(1, 2);
    let ordered_recs: Vec<Rec> = if mixed {
        recs.iter().filter(|r| !matches!(r, Rec::Flush(_))).cloned().collect()
    } else {
        recs.to_vec()
    };
    let stages = stages_of(&ordered_recs, rng);
    let mut c = unimock::verif::DynClause::new();
    let mut patterns = 0;
    let flush_stages = stages_of(&flushes, rng);
    // declared before the ordered pattern with this number (0 = first clause of the mock)
    let mut flush_at = if mixed { Some(rng.below(stages.len() + 1).min(2)) } else { None };
    let mut push_flush = |c: &mut unimock::verif::DynClause<'static>| {
        let mut q = WriteMock::flush.each_call(matching!()).answers_arc(flush_answer(flush_stages[0].0.clone()));
        for k in 0..flush_stages.len() {
            let qr = q.n_times(flush_stages[k].1);
            if k + 1 == flush_stages.len() {
                c.push(qr);
                break;
            }
            q = qr.then().answers_arc(flush_answer(flush_stages[k + 1].0.clone()));
        }
    };
    let mut i = 0;
    while i < stages.len() {
        if flush_at == Some(patterns) {
            push_flush(&mut c);
            flush_at = None;
        }
        let mut j = i + 1;
        while j < stages.len() && same_method(&stages[i].0, &stages[j].0) && rng.chance(1, 2) {
            j += 1;
        }
        patterns += 1;
        match &stages[i].0 {
            Rec::Write(_) => {
                let mut q = WriteMock::write.next_call(matching!(_)).answers_arc(write_answer(stages[i].0.clone()));
                for k in i..j {
                    let qr = q.n_times(stages[k].1);
                    if k + 1 == j {
                        c.push(qr);
                        break;
                    }
                    // sometimes a stage that is repeated zero times sits in between (a parameterised script at its
                    // boundary value): it answers nothing, the next stage starts right away
                    if rng.chance(1, 4) {
                        let bogus = write_answer(Rec::Write(Err(io::ErrorKind::AddrInUse)));
                        q = qr.then().answers_arc(bogus).n_times(0).then().answers_arc(write_answer(stages[k + 1].0.clone()));
                    } else {
                        q = qr.then().answers_arc(write_answer(stages[k + 1].0.clone()));
                    }
                }
            }
            Rec::Flush(_) => {
                let mut q = WriteMock::flush.next_call(matching!()).answers_arc(flush_answer(stages[i].0.clone()));
                for k in i..j {
                    let qr = q.n_times(stages[k].1);
                    if k + 1 == j {
                        c.push(qr);
                        break;
                    }
                    q = qr.then().answers_arc(flush_answer(stages[k + 1].0.clone()));
                }
            }
            Rec::Delay(_) => {
                let mut q = DelayNsMock::delay_ns.next_call(matching!(_)).answers_arc(delay_answer(stages[i].0.clone()));
                for k in i..j {
                    let qr = q.n_times(stages[k].1);
                    if k + 1 == j {
                        c.push(qr);
                        break;
                    }
                    q = qr.then().answers_arc(delay_answer(stages[k + 1].0.clone()));
                }
            }
        }
        i = j;
    }
    if flush_at.is_some() {
        push_flush(&mut c);
    }
    (mk(partial, c), patterns)
}

/// The script as order-independent series with an open tail: the first required call is answered by a `once()`
/// stage, every later one by the unquantified stage after `then()` (which replays the remaining outcomes).
/// Returns the mock and whether its expectations will be met by `n` calls (a trailing `then()` demands one more
/// call than the counted stages; a mentioned method must be called at all).
fn series_mock(recs: &[Rec], partial: bool) -> (Unimock, bool) {
    let writes: Vec<Rec> = recs.iter().filter(|r| matches!(r, Rec::Write(_))).cloned().collect();
    let flushes: Vec<Rec> = recs.iter().filter(|r| matches!(r, Rec::Flush(_))).cloned().collect();
    let mut c = unimock::verif::DynClause::new();
    let mut met = true;
    if !writes.is_empty() {
        met &= writes.len() >= 2;
        let rest: Vec<Rec> = writes[1..].to_vec();
        let cursor = std::sync::atomic::AtomicUsize::new(0);
        let tail: std::sync::Arc<dyn Fn(&mut Unimock, &[u8]) -> io::Result<usize> + Send + Sync> =
            std::sync::Arc::new(move |_: &mut Unimock, buf: &[u8]| {
                log(format!("write({buf:?})"));
                let k = cursor.fetch_add(1, std::sync::atomic::Ordering::SeqCst);
                match rest.get(k) {
                    Some(Rec::Write(Ok(n))) => {
                        st().sink.extend_from_slice(&buf[..(*n).min(buf.len())]);
                        Ok(*n)
                    }
                    Some(Rec::Write(Err(kind))) => Err(io::Error::new(*kind, "scripted failure")),
                    _ => Err(io::Error::new(io::ErrorKind::Other, "script exhausted")),
                }
            });
        c.push(
            WriteMock::write
                .each_call(matching!(_))
                .answers_arc(write_answer(writes[0].clone()))
                .once()
                .then()
                .answers_arc(tail),
        );
    }
    if !flushes.is_empty() {
        let all = flushes.clone();
        let cursor = std::sync::atomic::AtomicUsize::new(0);
        let f: std::sync::Arc<dyn Fn(&mut Unimock) -> io::Result<()> + Send + Sync> =
            std::sync::Arc::new(move |_: &mut Unimock| {
                log("flush()".into());
                let k = cursor.fetch_add(1, std::sync::atomic::Ordering::SeqCst);
                match all.get(k) {
                    Some(Rec::Flush(Err(kind))) => Err(io::Error::new(*kind, "scripted failure")),
                    _ => Ok(()),
                }
            });
        c.push(WriteMock::flush.each_call(matching!()).answers_arc(f));
    }
    (mk(partial, c), met)
}

struct PlainWriter;
impl Write for PlainWriter {
    fn write(&mut self, buf: &[u8]) -> io::Result<usize> {
        rp_write(buf)
    }
    fn flush(&mut self) -> io::Result<()> {
        rp_flush()
    }
}

fn mock_writer(partial: bool) -> Unimock {
    mk(partial, (
        WriteMock::write
            .each_call(matching!(_))
            .answers(&|_, buf| rp_write(buf)),
        WriteMock::flush.each_call(matching!()).answers(&|_| rp_flush()),
    ))
    .no_verify_in_drop()
}

fn mk(partial: bool, clause: impl Clause) -> Unimock {
    if partial {
        Unimock::new_partial(clause)
    } else {
        Unimock::new(clause)
    }
}

/// After the provided methods have delegated through the internal helper, the instance is finished the way a
/// `fn test() -> Unimock` test finishes it: `Termination::report()` must return an exit code, not panic
/// ("clones still alive" would mean the internal delegation helper was counted as an escaped clone).
fn finish(u: Unimock, out: &mut Vec<String>) {
    let r = std::panic::catch_unwind(std::panic::AssertUnwindSafe(move || {
        let _code = std::process::Termination::report(u);
    }));
    if let Err(p) = r {
        let msg = p
            .downcast_ref::<String>()
            .cloned()
            .or(p.downcast_ref::<&str>().map(|s| s.to_string()))
            .unwrap_or_default();
        out.push(format!("report() panicked: {msg}"));
    }
}

/// Like `finish`, for mocks whose verdict is known: `report()` must map it to its exit code.
fn finish_expect(u: Unimock, success: bool, out: &mut Vec<String>) {
    let r = std::panic::catch_unwind(std::panic::AssertUnwindSafe(move || std::process::Termination::report(u)));
    match r {
        Ok(code) => {
            let want = if success { std::process::ExitCode::SUCCESS } else { std::process::ExitCode::FAILURE };
            if format!("{code:?}") != format!("{want:?}") {
                out.push(format!(
                    "report() returned {code:?} although the scripted expectations were {}",
                    if success { "all met" } else { "not met" }
                ));
            }
        }
        Err(p) => {
            let msg = p
                .downcast_ref::<String>()
                .cloned()
                .or(p.downcast_ref::<&str>().map(|s| s.to_string()))
                .unwrap_or_default();
            out.push(format!("report() panicked: {msg}"));
        }
    }
}

fn res_str<T: std::fmt::Debug>(r: &io::Result<T>) -> String {
    match r {
        Ok(v) => format!("Ok({v:?})"),
        Err(e) => format!("Err({:?})", e.kind()),
    }
}

fn drive_write(w: &mut dyn Write, rng: &mut Rng, payload: &[u8]) -> Vec<String> {
    let mut out = vec![];
    for _ in 0..rng.range(1, 4) {
        match rng.below(5) {
            0 => out.push(format!("write_all -> {}", res_str(&w.write_all(payload)))),
            1 => out.push(format!(
                "write! -> {}",
                res_str(&write!(w, "{}-{:>4}-{:?}", payload.len(), "ab", &payload[..payload.len().min(3)]))
            )),
            2 => {
                let bufs = [IoSlice::new(&[]), IoSlice::new(payload), IoSlice::new(b"tail")];
                out.push(format!("write_vectored -> {}", res_str(&w.write_vectored(&bufs))));
            }
            3 => out.push(format!("flush -> {}", res_str(&w.flush()))),
            _ => out.push(format!("write -> {}", res_str(&w.write(payload)))),
        }
    }
    out
}

// ---- std::io::Read / BufRead

fn rp_read(buf: &mut [u8]) -> io::Result<usize> {
    log(format!("read(len={})", buf.len()));
    match next_step() {
        Step::Take(n) => {
            let mut s = st();
            let avail = s.data.len() - s.data_pos;
            let n = n.min(buf.len()).min(avail);
            let from = s.data_pos;
            buf[..n].copy_from_slice(&s.data[from..from + n]);
            s.data_pos += n;
            Ok(n)
        }
        Step::Interrupted => Err(io::ErrorKind::Interrupted.into()),
        Step::Fail => Err(other_err()),
        Step::Eof | Step::Pending => Ok(0),
    }
}

struct PlainReader {
    // BufRead::fill_buf must lend from self
    buf: Vec<u8>,
}

impl Read for PlainReader {
    fn read(&mut self, buf: &mut [u8]) -> io::Result<usize> {
        rp_read(buf)
    }
}

fn rp_fill_buf() -> io::Result<Vec<u8>> {
    log("fill_buf()".into());
    match next_step() {
        Step::Take(n) => {
            let s = st();
            let avail = s.data.len() - s.data_pos;
            let n = n.max(1).min(avail);
            Ok(s.data[s.data_pos..s.data_pos + n].to_vec())
        }
        Step::Interrupted => Err(io::ErrorKind::Interrupted.into()),
        Step::Fail => Err(other_err()),
        Step::Eof | Step::Pending => Ok(vec![]),
    }
}

fn rp_consume(amt: usize) {
    log(format!("consume({amt})"));
    let mut s = st();
    s.data_pos = (s.data_pos + amt).min(s.data.len());
}

impl BufRead for PlainReader {
    fn fill_buf(&mut self) -> io::Result<&[u8]> {
        self.buf = rp_fill_buf()?;
        Ok(&self.buf)
    }
    fn consume(&mut self, amt: usize) {
        rp_consume(amt)
    }
}

fn mock_reader(partial: bool) -> Unimock {
    mk(partial, (
        ReadMock::read
            .each_call(matching!(_))
            .answers(&|_, buf| rp_read(buf)),
        BufReadMock::fill_buf
            .each_call(matching!())
            .answers(&|u| rp_fill_buf().map(|v| u.make_mut(v).as_slice())),
        BufReadMock::consume
            .each_call(matching!(_))
            .answers(&|_, amt| rp_consume(amt)),
    ))
    .no_verify_in_drop()
}

fn drive_read<R: Read>(r: &mut R, rng: &mut Rng) -> Vec<String> {
    let mut out = vec![];
    for _ in 0..rng.range(1, 3) {
        match rng.below(5) {
            0 => {
                let mut b = vec![0u8; rng.range(1, 9)];
                let res = r.read_exact(&mut b);
                out.push(format!("read_exact -> {} {b:?}", res_str(&res)));
            }
            1 => {
                let mut v = vec![9u8];
                let res = r.read_to_end(&mut v);
                out.push(format!("read_to_end -> {} {v:?}", res_str(&res)));
            }
            2 => {
                let mut s = String::from("x");
                let res = r.read_to_string(&mut s);
                out.push(format!("read_to_string -> {} {s:?}", res_str(&res)));
            }
            3 => {
                let mut a = [0u8; 0];
                let mut b = [0u8; 3];
                let mut c = [0u8; 2];
                let res = {
                    let mut bufs = [IoSliceMut::new(&mut a), IoSliceMut::new(&mut b), IoSliceMut::new(&mut c)];
                    r.read_vectored(&mut bufs)
                };
                out.push(format!("read_vectored -> {} {b:?} {c:?}", res_str(&res)));
            }
            _ => {
                let mut b = vec![0u8; rng.range(0, 5)];
                let res = r.read(&mut b);
                out.push(format!("read -> {} {b:?}", res_str(&res)));
            }
        }
    }
    out
}

fn drive_bufread<R: BufRead>(r: &mut R, rng: &mut Rng) -> Vec<String> {
    let mut out = vec![];
    for _ in 0..rng.range(1, 3) {
        match rng.below(3) {
            0 => {
                let mut v = vec![];
                let res = r.read_until(b'\n', &mut v);
                out.push(format!("read_until -> {} {v:?}", res_str(&res)));
            }
            1 => {
                let mut s = String::new();
                let res = r.read_line(&mut s);
                out.push(format!("read_line -> {} {s:?}", res_str(&res)));
            }
            _ => {
                let res = r.fill_buf().map(|b| b.to_vec());
                out.push(format!("fill_buf -> {}", res_str(&res)));
                r.consume(1);
            }
        }
    }
    out
}

// ---- Seek

fn rp_seek(pos: SeekFrom) -> io::Result<u64> {
    log(format!("seek({pos:?})"));
    match next_step() {
        Step::Fail => Err(other_err()),
        Step::Take(n) => Ok((n % 1000) as u64),
        _ => Ok(7),
    }
}

struct PlainSeek;
impl Seek for PlainSeek {
    fn seek(&mut self, pos: SeekFrom) -> io::Result<u64> {
        rp_seek(pos)
    }
}

fn drive_seek(s: &mut dyn Seek, rng: &mut Rng) -> Vec<String> {
    let mut out = vec![];
    for _ in 0..rng.range(1, 4) {
        match rng.below(3) {
            0 => out.push(format!("rewind -> {}", res_str(&s.rewind()))),
            1 => out.push(format!("stream_position -> {}", res_str(&s.stream_position()))),
            _ => out.push(format!("seek -> {}", res_str(&s.seek(SeekFrom::End(-3))))),
        }
    }
    out
}

// ---- Hasher

/// `finish()` calls are not logged in the families that answer them with a plain `returns(value)`
static LOG_FINISH: std::sync::atomic::AtomicBool = std::sync::atomic::AtomicBool::new(true);

struct PlainHasher;
impl std::hash::Hasher for PlainHasher {
    fn finish(&self) -> u64 {
        if LOG_FINISH.load(std::sync::atomic::Ordering::SeqCst) {
            log("finish()".into());
        }
        77
    }
    fn write(&mut self, bytes: &[u8]) {
        log(format!("hwrite({bytes:?})"));
    }
}

fn drive_hasher(h: &mut dyn std::hash::Hasher, rng: &mut Rng) -> Vec<String> {
    use std::hash::Hash;
    let mut out = vec![];
    for _ in 0..rng.range(1, 5) {
        let v = rng.next_u64();
        match rng.below(14) {
            0 => h.write_u8(v as u8),
            1 => h.write_u16(v as u16),
            2 => h.write_u32(v as u32),
            3 => h.write_u64(v),
            4 => h.write_u128(v as u128 * 3),
            5 => h.write_usize(v as usize),
            6 => h.write_i8(v as i8),
            7 => h.write_i16(v as i16),
            8 => h.write_i32(v as i32),
            9 => h.write_i64(v as i64),
            10 => h.write_i128(-(v as i128)),
            11 => h.write_isize(v as isize),
            12 => h.write(&v.to_le_bytes()[..3]),
            _ => {
                struct W<'a>(&'a mut dyn std::hash::Hasher);
                impl std::hash::Hasher for W<'_> {
                    fn finish(&self) -> u64 {
                        self.0.finish()
                    }
                    fn write(&mut self, b: &[u8]) {
                        self.0.write(b)
                    }
                }
                (v as u32, "str", [1u8, 2]).hash(&mut W(h));
            }
        }
    }
    out.push(format!("finish -> {}", h.finish()));
    out
}

// ---- Display / Debug

struct PlainFmt;
fn rp_fmt(f: &mut std::fmt::Formatter<'_>, tag: &str) -> std::fmt::Result {
    log(format!("fmt[{tag}] width={:?} alt={}", f.width(), f.alternate()));
    f.pad(tag)
}
impl std::fmt::Display for PlainFmt {
    fn fmt(&self, f: &mut std::fmt::Formatter<'_>) -> std::fmt::Result {
        rp_fmt(f, "display")
    }
}
impl std::fmt::Debug for PlainFmt {
    fn fmt(&self, f: &mut std::fmt::Formatter<'_>) -> std::fmt::Result {
        rp_fmt(f, "debug")
    }
}

fn drive_fmt<T: std::fmt::Display + std::fmt::Debug>(t: &T) -> Vec<String> {
    vec![
        format!("{t}"),
        format!("{t:>12}"),
        format!("{t:<3}|"),
        format!("{t:?}"),
        format!("{t:#?}"),
        format!("{:?}", Some(t)),
        t.to_string(),
    ]
}

// ---- a user trait with Display + Debug supertraits whose provided methods format `self`: inside a delegated
// default body `self` is the internal helper, whose Display / Debug must be answered by the mock's own entries

#[unimock(api=DescribeMock)]
trait Describe: std::fmt::Debug + std::fmt::Display {
    fn tag(&self) -> u32;
    fn describe(&self) -> String {
        format!("{}:{:?}|{}|{:#?}", self.tag(), self, self, self)
    }
    fn describe_mut(&mut self) -> String {
        format!("{:>9}/{:?}/{}", self, self, self.tag())
    }
    fn describe_owned(self) -> String
    where
        Self: Sized,
    {
        format!("{:?}-{}", self, self)
    }
}

impl Describe for PlainFmt {
    fn tag(&self) -> u32 {
        log("tag()".into());
        7
    }
}

fn drive_describe<T: Describe>(mut t: T, rng: &mut Rng) -> Vec<String> {
    let mut out = vec![];
    for _ in 0..rng.range(1, 4) {
        match rng.below(4) {
            0 => out.push(t.describe()),
            1 => out.push(t.describe_mut()),
            2 => out.push(format!("{t:?}|{t}")),
            _ => out.push(t.tag().to_string()),
        }
    }
    out.push(t.describe_owned());
    out
}

// ---- embedded-hal

use embedded_hal::delay::DelayNs;
use embedded_hal::digital::{InputPin, OutputPin, PinState, StatefulOutputPin};
use embedded_hal::i2c::I2c;
use embedded_hal::pwm::SetDutyCycle;
use embedded_hal::spi::{SpiBus, SpiDevice};

struct PlainHal {
    high: bool,
}

#[derive(Debug)]
struct HalErr;
impl embedded_hal::digital::Error for HalErr {
    fn kind(&self) -> embedded_hal::digital::ErrorKind {
        embedded_hal::digital::ErrorKind::Other
    }
}
impl embedded_hal::i2c::Error for HalErr {
    fn kind(&self) -> embedded_hal::i2c::ErrorKind {
        embedded_hal::i2c::ErrorKind::Other
    }
}
impl embedded_hal::spi::Error for HalErr {
    fn kind(&self) -> embedded_hal::spi::ErrorKind {
        embedded_hal::spi::ErrorKind::Other
    }
}
impl embedded_hal::pwm::Error for HalErr {
    fn kind(&self) -> embedded_hal::pwm::ErrorKind {
        embedded_hal::pwm::ErrorKind::Other
    }
}

fn ok_or_fail() -> bool {
    !matches!(next_step(), Step::Fail)
}

impl DelayNs for PlainHal {
    fn delay_ns(&mut self, ns: u32) {
        log(format!("delay_ns({ns})"));
        st().recs.push(Rec::Delay(ns));
    }
}

fn drive_delay<H: DelayNs>(h: &mut H, rng: &mut Rng) -> Vec<String> {
    for _ in 0..rng.range(1, 5) {
        match rng.below(6) {
            0 => h.delay_us((rng.next_u64() % 9_000_000) as u32),
            // more than 4294 ms do not fit one delay_ns call: the upstream body repeats the maximal chunk
            1 => h.delay_ms((rng.next_u64() % 30_000) as u32),
            2 => h.delay_ms((rng.next_u64() % 5) as u32),
            // exactly at / next to a chunk boundary (k * 4294 ms, k * 4_294_967 us)
            3 => h.delay_ms((rng.range(1, 7) as u32 * 4294).wrapping_add(rng.below(3) as u32).wrapping_sub(1)),
            4 => h.delay_us((rng.range(1, 3) as u32 * 4_294_967).wrapping_add(rng.below(3) as u32).wrapping_sub(1)),
            _ => h.delay_ns(rng.next_u64() as u32 % 3),
        }
    }
    vec![]
}
impl embedded_hal::digital::ErrorType for PlainHal {
    type Error = HalErr;
}
impl OutputPin for PlainHal {
    fn set_low(&mut self) -> Result<(), HalErr> {
        log("set_low()".into());
        self.high = false;
        if ok_or_fail() { Ok(()) } else { Err(HalErr) }
    }
    fn set_high(&mut self) -> Result<(), HalErr> {
        log("set_high()".into());
        self.high = true;
        if ok_or_fail() { Ok(()) } else { Err(HalErr) }
    }
}
impl StatefulOutputPin for PlainHal {
    fn is_set_high(&mut self) -> Result<bool, HalErr> {
        log("is_set_high()".into());
        if ok_or_fail() { Ok(HIGH.load(std::sync::atomic::Ordering::SeqCst)) } else { Err(HalErr) }
    }
    fn is_set_low(&mut self) -> Result<bool, HalErr> {
        log("is_set_low()".into());
        if ok_or_fail() { Ok(!HIGH.load(std::sync::atomic::Ordering::SeqCst)) } else { Err(HalErr) }
    }
}
impl InputPin for PlainHal {
    fn is_high(&mut self) -> Result<bool, HalErr> {
        log("is_high()".into());
        Ok(true)
    }
    fn is_low(&mut self) -> Result<bool, HalErr> {
        log("is_low()".into());
        Ok(false)
    }
}
static HIGH: std::sync::atomic::AtomicBool = std::sync::atomic::AtomicBool::new(false);

fn mock_hal(partial: bool) -> Unimock {
    use ehm::delay::DelayNsMock;
    use ehm::digital::{InputPinMock, OutputPinMock, StatefulOutputPinMock};
    mk(partial, (
        DelayNsMock::delay_ns
            .each_call(matching!(_))
            .answers(&|_, ns| log(format!("delay_ns({ns})"))),
        OutputPinMock::set_low.each_call(matching!()).answers(&|_| {
            log("set_low()".into());
            if ok_or_fail() { Ok(()) } else { Err(Unimock::new(())) }
        }),
        OutputPinMock::set_high.each_call(matching!()).answers(&|_| {
            log("set_high()".into());
            if ok_or_fail() { Ok(()) } else { Err(Unimock::new(())) }
        }),
        StatefulOutputPinMock::is_set_high.each_call(matching!()).answers(&|_| {
            log("is_set_high()".into());
            if ok_or_fail() { Ok(HIGH.load(std::sync::atomic::Ordering::SeqCst)) } else { Err(Unimock::new(())) }
        }),
        StatefulOutputPinMock::is_set_low.each_call(matching!()).answers(&|_| {
            log("is_set_low()".into());
            if ok_or_fail() { Ok(!HIGH.load(std::sync::atomic::Ordering::SeqCst)) } else { Err(Unimock::new(())) }
        }),
        InputPinMock::is_high.each_call(matching!()).answers(&|_| {
            log("is_high()".into());
            Ok(true)
        }),
        InputPinMock::is_low.each_call(matching!()).answers(&|_| {
            log("is_low()".into());
            Ok(false)
        }),
    ))
    .no_verify_in_drop()
}

fn unit_res<E>(r: &Result<(), E>) -> &'static str {
    if r.is_ok() { "Ok" } else { "Err" }
}

fn drive_hal<H>(h: &mut H, rng: &mut Rng) -> Vec<String>
where
    H: DelayNs + StatefulOutputPin + InputPin,
{
    let mut out = vec![];
    for _ in 0..rng.range(1, 4) {
        HIGH.store(rng.chance(1, 2), std::sync::atomic::Ordering::SeqCst);
        match rng.below(7) {
            0 => h.delay_us((rng.next_u64() % 5_000_000) as u32),
            1 => h.delay_ms((rng.next_u64() % 9000) as u32),
            2 => h.delay_ns(rng.next_u64() as u32),
            3 => out.push(format!("set_state -> {}", unit_res(&h.set_state(if rng.chance(1, 2) { PinState::High } else { PinState::Low })))),
            4 => out.push(format!("toggle -> {}", unit_res(&h.toggle()))),
            5 => out.push(format!("is_high -> {:?}", h.is_high().ok())),
            _ => out.push(format!("is_low -> {:?}", h.is_low().ok())),
        }
    }
    out
}

// I2c / SPI device / PWM on a second plain struct
struct PlainBus;
impl embedded_hal::i2c::ErrorType for PlainBus {
    type Error = HalErr;
}
fn log_i2c_ops(address: u8, ops: &mut [embedded_hal::i2c::Operation<'_>]) {
    let mut s = format!("transaction(addr={address}");
    for op in ops.iter_mut() {
        match op {
            embedded_hal::i2c::Operation::Read(b) => {
                for (i, x) in b.iter_mut().enumerate() {
                    *x = 0xA0 + i as u8;
                }
                s.push_str(&format!(" R{}", b.len()));
            }
            embedded_hal::i2c::Operation::Write(b) => s.push_str(&format!(" W{b:?}")),
        }
    }
    s.push(')');
    log(s);
}
impl I2c<u8> for PlainBus {
    fn transaction(&mut self, address: u8, operations: &mut [embedded_hal::i2c::Operation<'_>]) -> Result<(), HalErr> {
        log_i2c_ops(address, operations);
        if ok_or_fail() { Ok(()) } else { Err(HalErr) }
    }
}
impl embedded_hal::spi::ErrorType for PlainBus {
    type Error = HalErr;
}
fn log_spi_ops(ops: &mut [embedded_hal::spi::Operation<'_, u8>]) {
    use embedded_hal::spi::Operation as O;
    let mut s = String::from("spi_transaction(");
    for op in ops.iter_mut() {
        match op {
            O::Read(b) => {
                for (i, x) in b.iter_mut().enumerate() {
                    *x = 0x50 + i as u8;
                }
                s.push_str(&format!(" R{}", b.len()));
            }
            O::Write(b) => s.push_str(&format!(" W{b:?}")),
            O::Transfer(r, w) => {
                for (i, x) in r.iter_mut().enumerate() {
                    *x = 0x60 + i as u8;
                }
                s.push_str(&format!(" T{}:{w:?}", r.len()));
            }
            O::TransferInPlace(b) => {
                s.push_str(&format!(" I{b:?}"));
                for x in b.iter_mut() {
                    *x = x.wrapping_add(1);
                }
            }
            O::DelayNs(n) => s.push_str(&format!(" D{n}")),
        }
    }
    s.push(')');
    log(s);
}
impl SpiDevice<u8> for PlainBus {
    fn transaction(&mut self, operations: &mut [embedded_hal::spi::Operation<'_, u8>]) -> Result<(), HalErr> {
        log_spi_ops(operations);
        if ok_or_fail() { Ok(()) } else { Err(HalErr) }
    }
}
impl embedded_hal::pwm::ErrorType for PlainBus {
    type Error = HalErr;
}
impl SetDutyCycle for PlainBus {
    fn max_duty_cycle(&self) -> u16 {
        log("max_duty_cycle()".into());
        1000
    }
    fn set_duty_cycle(&mut self, duty: u16) -> Result<(), HalErr> {
        log(format!("set_duty_cycle({duty})"));
        if ok_or_fail() { Ok(()) } else { Err(HalErr) }
    }
}

fn mock_bus(partial: bool) -> Unimock {
    use ehm::i2c::I2cMock;
    use ehm::pwm::SetDutyCycleMock;
    use ehm::spi::SpiDeviceMock;
    mk(partial, (
        I2cMock::transaction
            .with_types::<u8>()
            .each_call(matching!(_, _))
            .answers(&|_, address, ops| {
                log_i2c_ops(address, ops);
                if ok_or_fail() { Ok(()) } else { Err(Unimock::new(())) }
            }),
        SpiDeviceMock::transaction
            .with_types::<u8>()
            .each_call(matching!(_))
            .answers(&|_, ops| {
                log_spi_ops(ops);
                if ok_or_fail() { Ok(()) } else { Err(Unimock::new(())) }
            }),
        SetDutyCycleMock::max_duty_cycle.each_call(matching!()).answers(&|_| {
            log("max_duty_cycle()".into());
            1000
        }),
        SetDutyCycleMock::set_duty_cycle.each_call(matching!(_)).answers(&|_, duty| {
            log(format!("set_duty_cycle({duty})"));
            if ok_or_fail() { Ok(()) } else { Err(Unimock::new(())) }
        }),
    ))
    .no_verify_in_drop()
}

fn drive_bus<B>(b: &mut B, rng: &mut Rng) -> Vec<String>
where
    B: I2c<u8> + SpiDevice<u8> + SetDutyCycle,
{
    let mut out = vec![];
    for _ in 0..rng.range(1, 4) {
        let n = rng.range(0, 4);
        let payload: Vec<u8> = (0..n).map(|i| (rng.next_u64() as u8).wrapping_add(i as u8)).collect();
        match rng.below(11) {
            0 => {
                let mut buf = vec![0u8; n];
                let r = I2c::read(b, 0x21, &mut buf);
                out.push(format!("i2c.read -> {} {buf:?}", unit_res(&r)));
            }
            1 => out.push(format!("i2c.write -> {}", unit_res(&I2c::write(b, 0x22, &payload)))),
            2 => {
                let mut buf = vec![0u8; 2];
                let r = b.write_read(0x23, &payload, &mut buf);
                out.push(format!("i2c.write_read -> {} {buf:?}", unit_res(&r)));
            }
            3 => {
                let mut buf = vec![0u8; n];
                let r = SpiDevice::read(b, &mut buf);
                out.push(format!("spi.read -> {} {buf:?}", unit_res(&r)));
            }
            4 => out.push(format!("spi.write -> {}", unit_res(&SpiDevice::write(b, &payload)))),
            5 => {
                let mut buf = vec![0u8; 3];
                let r = SpiDevice::transfer(b, &mut buf, &payload);
                out.push(format!("spi.transfer -> {} {buf:?}", unit_res(&r)));
            }
            6 => {
                let mut buf = payload.clone();
                let r = SpiDevice::transfer_in_place(b, &mut buf);
                out.push(format!("spi.transfer_in_place -> {} {buf:?}", unit_res(&r)));
            }
            7 => out.push(format!("pwm.off -> {}", unit_res(&b.set_duty_cycle_fully_off()))),
            8 => out.push(format!("pwm.on -> {}", unit_res(&b.set_duty_cycle_fully_on()))),
            9 => out.push(format!("pwm.fraction -> {}", unit_res(&b.set_duty_cycle_fraction((rng.next_u64() % 7) as u16, 7)))),
            _ => out.push(format!("pwm.percent -> {}", unit_res(&b.set_duty_cycle_percent((rng.next_u64() % 101) as u8)))),
        }
    }
    out
}

// SpiBus has required methods only: wiring check
struct PlainSpiBus;
impl embedded_hal::spi::ErrorType for PlainSpiBus {
    type Error = HalErr;
}
impl SpiBus<u8> for PlainSpiBus {
    fn read(&mut self, w: &mut [u8]) -> Result<(), HalErr> {
        log(format!("bus.read({})", w.len()));
        Ok(())
    }
    fn write(&mut self, w: &[u8]) -> Result<(), HalErr> {
        log(format!("bus.write({w:?})"));
        Ok(())
    }
    fn transfer(&mut self, r: &mut [u8], w: &[u8]) -> Result<(), HalErr> {
        log(format!("bus.transfer({},{w:?})", r.len()));
        Ok(())
    }
    fn transfer_in_place(&mut self, w: &mut [u8]) -> Result<(), HalErr> {
        log(format!("bus.transfer_in_place({w:?})"));
        Ok(())
    }
    fn flush(&mut self) -> Result<(), HalErr> {
        log("bus.flush()".into());
        Ok(())
    }
}

fn mock_spibus(partial: bool) -> Unimock {
    use ehm::spi::SpiBusMock;
    mk(partial, (
        SpiBusMock::read.with_types::<u8>().each_call(matching!(_)).answers(&|_, w| {
            log(format!("bus.read({})", w.len()));
            Ok(())
        }),
        SpiBusMock::write.with_types::<u8>().each_call(matching!(_)).answers(&|_, w| {
            log(format!("bus.write({w:?})"));
            Ok(())
        }),
        SpiBusMock::transfer.with_types::<u8>().each_call(matching!(_, _)).answers(&|_, r, w| {
            log(format!("bus.transfer({},{w:?})", r.len()));
            Ok(())
        }),
        SpiBusMock::transfer_in_place.with_types::<u8>().each_call(matching!(_)).answers(&|_, w| {
            log(format!("bus.transfer_in_place({w:?})"));
            Ok(())
        }),
        SpiBusMock::flush.with_types::<u8>().each_call(matching!()).answers(&|_| {
            log("bus.flush()".into());
            Ok(())
        }),
    ))
    .no_verify_in_drop()
}

fn drive_spibus<B: SpiBus<u8>>(b: &mut B, rng: &mut Rng) -> Vec<String> {
    for _ in 0..rng.range(2, 6) {
        let mut buf = [1u8, 2, 3];
        match rng.below(5) {
            0 => b.read(&mut buf).ok(),
            1 => b.write(&buf).ok(),
            2 => b.transfer(&mut [0u8; 2], &buf).ok(),
            3 => b.transfer_in_place(&mut buf).ok(),
            _ => b.flush().ok(),
        };
    }
    vec![]
}

// ---- tokio / futures poll traits (direct polling with a no-op waker)

fn noop_waker() -> Waker {
    fn raw() -> RawWaker {
        fn no(_: *const ()) {}
        fn clone(_: *const ()) -> RawWaker {
            raw()
        }
        static VT: RawWakerVTable = RawWakerVTable::new(clone, no, no, no);
        RawWaker::new(std::ptr::null(), &VT)
    }
    unsafe { Waker::from_raw(raw()) }
}

fn rp_poll_write(buf: &[u8]) -> Poll<io::Result<usize>> {
    log(format!("poll_write({buf:?})"));
    match next_step() {
        Step::Take(n) => Poll::Ready(Ok(n.min(buf.len()))),
        Step::Pending => Poll::Pending,
        Step::Fail => Poll::Ready(Err(other_err())),
        Step::Interrupted => Poll::Ready(Err(io::ErrorKind::Interrupted.into())),
        Step::Eof => Poll::Ready(Ok(0)),
    }
}
fn rp_poll_unit(name: &str) -> Poll<io::Result<()>> {
    log(format!("{name}()"));
    match next_step() {
        Step::Pending => Poll::Pending,
        Step::Fail => Poll::Ready(Err(other_err())),
        _ => Poll::Ready(Ok(())),
    }
}

struct PlainTokio {
    buf: Vec<u8>,
}
impl tokio::io::AsyncWrite for PlainTokio {
    fn poll_write(self: Pin<&mut Self>, _: &mut Context<'_>, buf: &[u8]) -> Poll<io::Result<usize>> {
        rp_poll_write(buf)
    }
    fn poll_flush(self: Pin<&mut Self>, _: &mut Context<'_>) -> Poll<io::Result<()>> {
        rp_poll_unit("poll_flush")
    }
    fn poll_shutdown(self: Pin<&mut Self>, _: &mut Context<'_>) -> Poll<io::Result<()>> {
        rp_poll_unit("poll_shutdown")
    }
}
impl tokio::io::AsyncRead for PlainTokio {
    fn poll_read(self: Pin<&mut Self>, _: &mut Context<'_>, buf: &mut tokio::io::ReadBuf<'_>) -> Poll<io::Result<()>> {
        log(format!("poll_read(remaining={})", buf.remaining()));
        match next_step() {
            Step::Take(n) => {
                let n = n.min(buf.remaining()).min(3);
                buf.put_slice(&[7u8, 8, 9][..n]);
                Poll::Ready(Ok(()))
            }
            Step::Pending => Poll::Pending,
            Step::Fail => Poll::Ready(Err(other_err())),
            _ => Poll::Ready(Ok(())),
        }
    }
}
impl tokio::io::AsyncBufRead for PlainTokio {
    fn poll_fill_buf(self: Pin<&mut Self>, _: &mut Context<'_>) -> Poll<io::Result<&[u8]>> {
        log("poll_fill_buf()".into());
        let this = self.get_mut();
        match next_step() {
            Step::Pending => Poll::Pending,
            Step::Fail => Poll::Ready(Err(other_err())),
            _ => {
                this.buf = vec![1, 2, 3];
                Poll::Ready(Ok(&this.buf))
            }
        }
    }
    fn consume(self: Pin<&mut Self>, amt: usize) {
        log(format!("aconsume({amt})"));
    }
}
impl tokio::io::AsyncSeek for PlainTokio {
    fn start_seek(self: Pin<&mut Self>, position: SeekFrom) -> io::Result<()> {
        log(format!("start_seek({position:?})"));
        if ok_or_fail() { Ok(()) } else { Err(other_err()) }
    }
    fn poll_complete(self: Pin<&mut Self>, _: &mut Context<'_>) -> Poll<io::Result<u64>> {
        log("poll_complete()".into());
        match next_step() {
            Step::Pending => Poll::Pending,
            Step::Fail => Poll::Ready(Err(other_err())),
            _ => Poll::Ready(Ok(42)),
        }
    }
}

fn mock_tokio(partial: bool) -> Unimock {
    use unimock::mock::tokio_1::io::{AsyncBufReadMock, AsyncReadMock, AsyncSeekMock, AsyncWriteMock};
    mk(partial, (
        AsyncWriteMock::poll_write.each_call(matching!(_, _)).answers(&|_, _, buf| rp_poll_write(buf)),
        AsyncWriteMock::poll_flush.each_call(matching!(_)).answers(&|_, _| rp_poll_unit("poll_flush")),
        AsyncWriteMock::poll_shutdown.each_call(matching!(_)).answers(&|_, _| rp_poll_unit("poll_shutdown")),
        AsyncReadMock::poll_read.each_call(matching!(_, _)).answers(&|_, _, buf| {
            log(format!("poll_read(remaining={})", buf.remaining()));
            match next_step() {
                Step::Take(n) => {
                    let n = n.min(buf.remaining()).min(3);
                    buf.put_slice(&[7u8, 8, 9][..n]);
                    Poll::Ready(Ok(()))
                }
                Step::Pending => Poll::Pending,
                Step::Fail => Poll::Ready(Err(other_err())),
                _ => Poll::Ready(Ok(())),
            }
        }),
        AsyncBufReadMock::poll_fill_buf.each_call(matching!(_)).answers(&|u, _| {
            log("poll_fill_buf()".into());
            match next_step() {
                Step::Pending => Poll::Pending,
                Step::Fail => Poll::Ready(Err(other_err())),
                _ => Poll::Ready(Ok(u.make_mut(vec![1u8, 2, 3]).as_slice())),
            }
        }),
        AsyncBufReadMock::consume.each_call(matching!(_)).answers(&|_, amt| log(format!("aconsume({amt})"))),
        AsyncSeekMock::start_seek.each_call(matching!(_)).answers(&|_, position| {
            log(format!("start_seek({position:?})"));
            if ok_or_fail() { Ok(()) } else { Err(other_err()) }
        }),
        AsyncSeekMock::poll_complete.each_call(matching!(_)).answers(&|_, _| {
            log("poll_complete()".into());
            match next_step() {
                Step::Pending => Poll::Pending,
                Step::Fail => Poll::Ready(Err(other_err())),
                _ => Poll::Ready(Ok(42)),
            }
        }),
    ))
    .no_verify_in_drop()
}

fn poll_str<T: std::fmt::Debug>(p: Poll<io::Result<T>>) -> String {
    match p {
        Poll::Pending => "Pending".into(),
        Poll::Ready(r) => format!("Ready({})", res_str(&r)),
    }
}

fn drive_tokio<T>(t: &mut T, rng: &mut Rng) -> Vec<String>
where
    T: tokio::io::AsyncWrite + tokio::io::AsyncRead + tokio::io::AsyncBufRead + tokio::io::AsyncSeek + Unpin,
{
    use tokio::io::{AsyncBufRead, AsyncRead, AsyncSeek, AsyncWrite};
    let waker = noop_waker();
    let mut cx = Context::from_waker(&waker);
    let mut out = vec![];
    for _ in 0..rng.range(2, 6) {
        let payload = [rng.next_u64() as u8, 2, 3, 4];
        match rng.below(9) {
            0 => out.push(format!("poll_write -> {}", poll_str(Pin::new(&mut *t).poll_write(&mut cx, &payload)))),
            1 => {
                let bufs = [IoSlice::new(&[]), IoSlice::new(&payload), IoSlice::new(b"zz")];
                out.push(format!("poll_write_vectored -> {}", poll_str(Pin::new(&mut *t).poll_write_vectored(&mut cx, &bufs))));
            }
            2 => out.push(format!("is_write_vectored -> {}", AsyncWrite::is_write_vectored(&*t))),
            3 => out.push(format!("poll_flush -> {}", poll_str(Pin::new(&mut *t).poll_flush(&mut cx)))),
            4 => out.push(format!("poll_shutdown -> {}", poll_str(Pin::new(&mut *t).poll_shutdown(&mut cx)))),
            5 => {
                let mut raw = [0u8; 4];
                let mut rb = tokio::io::ReadBuf::new(&mut raw);
                let r = AsyncRead::poll_read(Pin::new(&mut *t), &mut cx, &mut rb);
                let filled = rb.filled().to_vec();
                out.push(format!("poll_read -> {} {filled:?}", poll_str(r)));
            }
            6 => {
                let r = AsyncBufRead::poll_fill_buf(Pin::new(&mut *t), &mut cx).map(|r| r.map(|b| b.to_vec()));
                out.push(format!("poll_fill_buf -> {}", poll_str(r)));
                AsyncBufRead::consume(Pin::new(&mut *t), 2);
            }
            7 => out.push(format!("start_seek -> {}", res_str(&AsyncSeek::start_seek(Pin::new(&mut *t), SeekFrom::Start(5))))),
            _ => out.push(format!("poll_complete -> {}", poll_str(AsyncSeek::poll_complete(Pin::new(&mut *t), &mut cx)))),
        }
    }
    out
}

struct PlainFutures {
    buf: Vec<u8>,
}
impl futures_io::AsyncWrite for PlainFutures {
    fn poll_write(self: Pin<&mut Self>, _: &mut Context<'_>, buf: &[u8]) -> Poll<io::Result<usize>> {
        rp_poll_write(buf)
    }
    fn poll_flush(self: Pin<&mut Self>, _: &mut Context<'_>) -> Poll<io::Result<()>> {
        rp_poll_unit("poll_flush")
    }
    fn poll_close(self: Pin<&mut Self>, _: &mut Context<'_>) -> Poll<io::Result<()>> {
        rp_poll_unit("poll_close")
    }
}
fn rp_fpoll_read(buf: &mut [u8]) -> Poll<io::Result<usize>> {
    log(format!("fpoll_read(len={})", buf.len()));
    match next_step() {
        Step::Take(n) => {
            let n = n.min(buf.len()).min(3);
            buf[..n].copy_from_slice(&[4u8, 5, 6][..n]);
            Poll::Ready(Ok(n))
        }
        Step::Pending => Poll::Pending,
        Step::Fail => Poll::Ready(Err(other_err())),
        _ => Poll::Ready(Ok(0)),
    }
}
impl futures_io::AsyncRead for PlainFutures {
    fn poll_read(self: Pin<&mut Self>, _: &mut Context<'_>, buf: &mut [u8]) -> Poll<io::Result<usize>> {
        rp_fpoll_read(buf)
    }
}
impl futures_io::AsyncBufRead for PlainFutures {
    fn poll_fill_buf(self: Pin<&mut Self>, _: &mut Context<'_>) -> Poll<io::Result<&[u8]>> {
        log("poll_fill_buf()".into());
        let this = self.get_mut();
        match next_step() {
            Step::Pending => Poll::Pending,
            Step::Fail => Poll::Ready(Err(other_err())),
            _ => {
                this.buf = vec![1, 2, 3];
                Poll::Ready(Ok(&this.buf))
            }
        }
    }
    fn consume(self: Pin<&mut Self>, amt: usize) {
        log(format!("aconsume({amt})"));
    }
}
impl futures_io::AsyncSeek for PlainFutures {
    fn poll_seek(self: Pin<&mut Self>, _: &mut Context<'_>, pos: SeekFrom) -> Poll<io::Result<u64>> {
        log(format!("poll_seek({pos:?})"));
        match next_step() {
            Step::Pending => Poll::Pending,
            Step::Fail => Poll::Ready(Err(other_err())),
            _ => Poll::Ready(Ok(43)),
        }
    }
}

fn mock_futures(partial: bool) -> Unimock {
    use unimock::mock::futures_0_3::io::{AsyncBufReadMock, AsyncReadMock, AsyncSeekMock, AsyncWriteMock};
    mk(partial, (
        AsyncWriteMock::poll_write.each_call(matching!(_, _)).answers(&|_, _, buf| rp_poll_write(buf)),
        AsyncWriteMock::poll_flush.each_call(matching!(_)).answers(&|_, _| rp_poll_unit("poll_flush")),
        AsyncWriteMock::poll_close.each_call(matching!(_)).answers(&|_, _| rp_poll_unit("poll_close")),
        AsyncReadMock::poll_read.each_call(matching!(_, _)).answers(&|_, _, buf| rp_fpoll_read(buf)),
        AsyncBufReadMock::poll_fill_buf.each_call(matching!(_)).answers(&|u, _| {
            log("poll_fill_buf()".into());
            match next_step() {
                Step::Pending => Poll::Pending,
                Step::Fail => Poll::Ready(Err(other_err())),
                _ => Poll::Ready(Ok(u.make_mut(vec![1u8, 2, 3]).as_slice())),
            }
        }),
        AsyncBufReadMock::consume.each_call(matching!(_)).answers(&|_, amt| log(format!("aconsume({amt})"))),
        AsyncSeekMock::poll_seek.each_call(matching!(_, _)).answers(&|_, _, pos| {
            log(format!("poll_seek({pos:?})"));
            match next_step() {
                Step::Pending => Poll::Pending,
                Step::Fail => Poll::Ready(Err(other_err())),
                _ => Poll::Ready(Ok(43)),
            }
        }),
    ))
    .no_verify_in_drop()
}

fn drive_futures<T>(t: &mut T, rng: &mut Rng) -> Vec<String>
where
    T: futures_io::AsyncWrite + futures_io::AsyncRead + futures_io::AsyncBufRead + futures_io::AsyncSeek + Unpin,
{
    use futures_io::{AsyncBufRead, AsyncRead, AsyncSeek, AsyncWrite};
    let waker = noop_waker();
    let mut cx = Context::from_waker(&waker);
    let mut out = vec![];
    for _ in 0..rng.range(2, 6) {
        let payload = [rng.next_u64() as u8, 2, 3, 4];
        match rng.below(8) {
            0 => out.push(format!("poll_write -> {}", poll_str(AsyncWrite::poll_write(Pin::new(&mut *t), &mut cx, &payload)))),
            1 => {
                let bufs = [IoSlice::new(&[]), IoSlice::new(&payload), IoSlice::new(b"zz")];
                out.push(format!("poll_write_vectored -> {}", poll_str(AsyncWrite::poll_write_vectored(Pin::new(&mut *t), &mut cx, &bufs))));
            }
            2 => out.push(format!("poll_flush -> {}", poll_str(AsyncWrite::poll_flush(Pin::new(&mut *t), &mut cx)))),
            3 => out.push(format!("poll_close -> {}", poll_str(AsyncWrite::poll_close(Pin::new(&mut *t), &mut cx)))),
            4 => {
                let mut raw = [0u8; 4];
                let r = AsyncRead::poll_read(Pin::new(&mut *t), &mut cx, &mut raw);
                out.push(format!("poll_read -> {} {raw:?}", poll_str(r)));
            }
            5 => {
                let mut a = [0u8; 0];
                let mut b = [0u8; 2];
                let r = {
                    let mut bufs = [IoSliceMut::new(&mut a), IoSliceMut::new(&mut b)];
                    AsyncRead::poll_read_vectored(Pin::new(&mut *t), &mut cx, &mut bufs)
                };
                out.push(format!("poll_read_vectored -> {} {b:?}", poll_str(r)));
            }
            6 => {
                let r = AsyncBufRead::poll_fill_buf(Pin::new(&mut *t), &mut cx).map(|r| r.map(|b| b.to_vec()));
                out.push(format!("poll_fill_buf -> {}", poll_str(r)));
                AsyncBufRead::consume(Pin::new(&mut *t), 1);
            }
            _ => out.push(format!("poll_seek -> {}", poll_str(AsyncSeek::poll_seek(Pin::new(&mut *t), &mut cx, SeekFrom::Current(2))))),
        }
    }
    out
}

// ------------------------------------------------------------------------------------------------

fn gen_script(rng: &mut Rng) -> Vec<Step> {
    (0..rng.range(0, 12))
        .map(|_| match rng.below(12) {
            0 => Step::Interrupted,
            1 => Step::Fail,
            2 => Step::Eof,
            3 => Step::Pending,
            4..=6 => Step::Take(rng.range(1, 3)),
            7 => Step::Take(0),
            _ => Step::Take(rng.range(1, 64)),
        })
        .collect()
}

/// the traits/methods exercised by a family, for the coverage report
const COVERED: &[(&str, &[&str])] = &[
    ("write", &["Write::write", "Write::flush", "Write::write_vectored", "Write::write_all"]),
    ("read", &["Read::read", "Read::read_vectored", "Read::read_to_end", "Read::read_to_string", "Read::read_exact"]),
    ("bufread", &["BufRead::fill_buf", "BufRead::consume", "BufRead::read_until", "BufRead::read_line"]),
    ("seek", &["Seek::seek", "Seek::rewind", "Seek::stream_position"]),
    ("hasher", &["Hasher::finish", "Hasher::write", "Hasher::write_u8", "Hasher::write_u16", "Hasher::write_u32",
                 "Hasher::write_u64", "Hasher::write_u128", "Hasher::write_usize", "Hasher::write_i8", "Hasher::write_i16",
                 "Hasher::write_i32", "Hasher::write_i64", "Hasher::write_i128", "Hasher::write_isize"]),
    ("hasher-returns", &["Hasher::finish", "Hasher::write", "Hasher::write_u32", "Hasher::write_u16"]),
    ("fmt", &["Display::fmt", "Debug::fmt"]),
    ("supertrait", &["Display::fmt", "Debug::fmt"]),
    ("write-ordered", &["Write::write", "Write::flush", "Write::write_all"]),
    ("delay-ordered", &["DelayNs::delay_ns", "DelayNs::delay_us", "DelayNs::delay_ms"]),
    ("write-series", &["Write::write", "Write::flush", "Write::write_all"]),
    ("hal", &["DelayNs::delay_ns", "DelayNs::delay_us", "DelayNs::delay_ms", "InputPin::is_high", "InputPin::is_low",
              "OutputPin::set_low", "OutputPin::set_high", "OutputPin::set_state", "StatefulOutputPin::is_set_high",
              "StatefulOutputPin::is_set_low", "StatefulOutputPin::toggle"]),
    ("bus", &["I2c::transaction", "I2c::read", "I2c::write", "I2c::write_read", "SpiDevice::transaction", "SpiDevice::read",
              "SpiDevice::write", "SpiDevice::transfer", "SpiDevice::transfer_in_place", "SetDutyCycle::max_duty_cycle",
              "SetDutyCycle::set_duty_cycle", "SetDutyCycle::set_duty_cycle_fully_off", "SetDutyCycle::set_duty_cycle_fully_on",
              "SetDutyCycle::set_duty_cycle_fraction", "SetDutyCycle::set_duty_cycle_percent"]),
    ("spibus", &["SpiBus::read", "SpiBus::write", "SpiBus::transfer", "SpiBus::transfer_in_place", "SpiBus::flush"]),
    ("tokio", &["tokio::AsyncBufRead::poll_fill_buf", "tokio::AsyncBufRead::consume", "tokio::AsyncRead::poll_read",
                "tokio::AsyncSeek::start_seek", "tokio::AsyncSeek::poll_complete", "tokio::AsyncWrite::poll_write",
                "tokio::AsyncWrite::poll_flush", "tokio::AsyncWrite::poll_shutdown", "tokio::AsyncWrite::poll_write_vectored",
                "tokio::AsyncWrite::is_write_vectored"]),
    ("futures", &["futures::AsyncBufRead::poll_fill_buf", "futures::AsyncBufRead::consume", "futures::AsyncRead::poll_read",
                  "futures::AsyncRead::poll_read_vectored", "futures::AsyncSeek::poll_seek", "futures::AsyncWrite::poll_write",
                  "futures::AsyncWrite::poll_flush", "futures::AsyncWrite::poll_close", "futures::AsyncWrite::poll_write_vectored"]),
];

type Run = (Vec<String>, Vec<String>, Vec<u8>);

fn run_family(family: &str, use_mock: bool, partial: bool, seed: u64) -> Run {
    let mut rng = Rng::new(seed);
    let script = gen_script(&mut rng);
    let data: Vec<u8> = (0..rng.range(0, 24))
        .map(|i| if rng.chance(1, 6) { b'\n' } else { b'a' + ((i as u8 + rng.next_u64() as u8) % 20) })
        .collect();
    reset(script, data);
    let payload: Vec<u8> = (0..rng.range(0, 40)).map(|i| i as u8 + 1).collect();
    // drive: the same rng stream for both implementations
    let mut drive_rng = Rng::new(seed ^ 0xD21E);
    let results = match family {
        "write" => {
            if use_mock {
                let mut u = mock_writer(partial);
                let mut out = drive_write(&mut u, &mut drive_rng, &payload);
                finish(u, &mut out);
                out
            } else {
                drive_write(&mut PlainWriter, &mut drive_rng, &payload)
            }
        }
        "read" => {
            if use_mock {
                let mut u = mock_reader(partial);
                let mut out = drive_read(&mut u, &mut drive_rng);
                finish(u, &mut out);
                out
            } else {
                drive_read(&mut PlainReader { buf: vec![] }, &mut drive_rng)
            }
        }
        "bufread" => {
            if use_mock {
                let mut u = mock_reader(partial);
                let mut out = drive_bufread(&mut u, &mut drive_rng);
                finish(u, &mut out);
                out
            } else {
                drive_bufread(&mut PlainReader { buf: vec![] }, &mut drive_rng)
            }
        }
        "seek" => {
            if use_mock {
                let mut u = mk(partial, SeekMock::seek.each_call(matching!(_)).answers(&|_, pos| rp_seek(pos))).no_verify_in_drop();
                let mut out = drive_seek(&mut u, &mut drive_rng);
                finish(u, &mut out);
                out
            } else {
                drive_seek(&mut PlainSeek, &mut drive_rng)
            }
        }
        "hasher" => {
            if use_mock {
                let mut u = mk(partial, (
                    HasherMock::finish.each_call(matching!()).answers(&|_| {
                        log("finish()".into());
                        77
                    }),
                    HasherMock::write.each_call(matching!(_)).answers(&|_, bytes| log(format!("hwrite({bytes:?})"))),
                ))
                .no_verify_in_drop();
                drive_hasher(&mut u, &mut drive_rng)
            } else {
                drive_hasher(&mut PlainHasher, &mut drive_rng)
            }
        }
        "hasher-returns" => {
            // finish() answered by a cloneable value with an open-ended count: returns(v).at_least_times(n) serves
            // every call, however many the upstream code makes
            use std::hash::{Hash, Hasher};
            LOG_FINISH.store(false, std::sync::atomic::Ordering::SeqCst);
            let calls = drive_rng.range(2, 5);
            let at_least = drive_rng.below(calls + 1);
            fn go(h: &mut dyn Hasher, calls: usize, rng: &mut Rng) -> Vec<String> {
                let mut out = vec![];
                for i in 0..calls {
                    (rng.next_u64() as u32, i as u16).hash(&mut Wrap(h));
                    out.push(format!("finish -> {}", h.finish()));
                }
                out
            }
            struct Wrap<'a>(&'a mut dyn Hasher);
            impl Hasher for Wrap<'_> {
                fn finish(&self) -> u64 {
                    self.0.finish()
                }
                fn write(&mut self, b: &[u8]) {
                    self.0.write(b)
                }
            }
            let out = if use_mock {
                let mut u = mk(partial, (
                    HasherMock::finish.some_call(matching!()).returns(77u64).at_least_times(at_least),
                    HasherMock::write.each_call(matching!(_)).answers(&|_, bytes| log(format!("hwrite({bytes:?})"))),
                ));
                let mut out = go(&mut u, calls, &mut drive_rng);
                finish_expect(u, true, &mut out);
                out
            } else {
                go(&mut PlainHasher, calls, &mut drive_rng)
            };
            LOG_FINISH.store(true, std::sync::atomic::Ordering::SeqCst);
            out
        }
        "fmt" => {
            if use_mock {
                let u = mk(partial, (
                    DisplayMock::fmt.each_call(matching!(_)).answers(&|_, f| rp_fmt(f, "display")),
                    DebugMock::fmt.each_call(matching!(_)).answers(&|_, f| rp_fmt(f, "debug")),
                ))
                .no_verify_in_drop();
                let mut out = drive_fmt(&u);
                finish(u, &mut out);
                out
            } else {
                drive_fmt(&PlainFmt)
            }
        }
        "supertrait" => {
            if use_mock {
                let u = mk(partial, (
                    DisplayMock::fmt.each_call(matching!(_)).answers(&|_, f| rp_fmt(f, "display")),
                    DebugMock::fmt.each_call(matching!(_)).answers(&|_, f| rp_fmt(f, "debug")),
                    DescribeMock::tag.each_call(matching!()).answers(&|_| {
                        log("tag()".into());
                        7
                    }),
                ))
                .no_verify_in_drop();
                drive_describe(u, &mut drive_rng)
            } else {
                drive_describe(PlainFmt, &mut drive_rng)
            }
        }
        "write-ordered" => {
            if use_mock {
                // the plain run tells which required calls happen and what each one produced
                let mut plain_rng = Rng::new(seed ^ 0xD21E);
                drive_write(&mut PlainWriter, &mut plain_rng, &payload);
                let recs = st().recs.clone();
                let (script, data) = {
                    let s = st();
                    (s.script.clone(), s.data.clone())
                };
                reset(script, data);
                let (mut u, _patterns) = ordered_mock(&recs, &mut rng, partial);
                let mut out = drive_write(&mut u, &mut drive_rng, &payload);
                finish_expect(u, true, &mut out);
                out
            } else {
                drive_write(&mut PlainWriter, &mut drive_rng, &payload)
            }
        }
        "write-series" => {
            if use_mock {
                let mut plain_rng = Rng::new(seed ^ 0xD21E);
                drive_write(&mut PlainWriter, &mut plain_rng, &payload);
                let recs = st().recs.clone();
                let (script, data) = {
                    let s = st();
                    (s.script.clone(), s.data.clone())
                };
                reset(script, data);
                let (mut u, met) = series_mock(&recs, partial);
                let mut out = drive_write(&mut u, &mut drive_rng, &payload);
                finish_expect(u, met, &mut out);
                out
            } else {
                drive_write(&mut PlainWriter, &mut drive_rng, &payload)
            }
        }
        "delay-ordered" => {
            if use_mock {
                let mut plain_rng = Rng::new(seed ^ 0xD21E);
                drive_delay(&mut PlainHal { high: false }, &mut plain_rng);
                let recs = st().recs.clone();
                reset(vec![], vec![]);
                let (mut u, _patterns) = ordered_mock(&recs, &mut rng, partial);
                let mut out = drive_delay(&mut u, &mut drive_rng);
                finish_expect(u, true, &mut out);
                out
            } else {
                drive_delay(&mut PlainHal { high: false }, &mut drive_rng)
            }
        }
        "hal" => {
            if use_mock {
                let mut u = mock_hal(partial);
                let mut out = drive_hal(&mut u, &mut drive_rng);
                finish(u, &mut out);
                out
            } else {
                drive_hal(&mut PlainHal { high: false }, &mut drive_rng)
            }
        }
        "bus" => {
            if use_mock {
                let mut u = mock_bus(partial);
                let mut out = drive_bus(&mut u, &mut drive_rng);
                finish(u, &mut out);
                out
            } else {
                drive_bus(&mut PlainBus, &mut drive_rng)
            }
        }
        "spibus" => {
            if use_mock {
                let mut u = mock_spibus(partial);
                let mut out = drive_spibus(&mut u, &mut drive_rng);
                finish(u, &mut out);
                out
            } else {
                drive_spibus(&mut PlainSpiBus, &mut drive_rng)
            }
        }
        "tokio" => {
            if use_mock {
                let mut u = mock_tokio(partial);
                let mut out = drive_tokio(&mut u, &mut drive_rng);
                finish(u, &mut out);
                out
            } else {
                drive_tokio(&mut PlainTokio { buf: vec![] }, &mut drive_rng)
            }
        }
        "futures" => {
            if use_mock {
                let mut u = mock_futures(partial);
                let mut out = drive_futures(&mut u, &mut drive_rng);
                finish(u, &mut out);
                out
            } else {
                drive_futures(&mut PlainFutures { buf: vec![] }, &mut drive_rng)
            }
        }
        other => panic!("unknown family {other}"),
    };
    let sink = st().sink.clone();
    (results, take_log(), sink)
}

fn main() {
    let args: Vec<String> = std::env::args().collect();
    let get = |name: &str, default: u64| -> u64 {
        args.iter()
            .position(|a| a == name)
            .and_then(|i| args.get(i + 1))
            .and_then(|s| s.parse().ok())
            .unwrap_or(default)
    };
    let cases = get("--cases", 1000);
    let seed = get("--seed", 1);
    // --family NAME: only that family (used as a stage by other properties' checks)
    let only: Option<String> = args.iter().position(|a| a == "--family").and_then(|i| args.get(i + 1).cloned());
    std::panic::set_hook(Box::new(|_| {}));
    let mut violations = 0u64;
    let mut evaluations = 0u64;
    let mut calls_logged = 0u64;
    let mut per_family: std::collections::BTreeMap<String, u64> = Default::default();
    let mut distinct: std::collections::HashSet<u64> = Default::default();
    let mut samples = vec![];
    for (family, _) in COVERED {
        if only.as_deref().map(|o| o != *family).unwrap_or(false) {
            continue;
        }
        for index in 0..cases {
            let s = mix3(seed, harness::prng::fnv(family.as_bytes()), index);
            let plain = std::panic::catch_unwind(|| run_family(family, false, false, s));
            let mock = std::panic::catch_unwind(|| run_family(family, true, index % 2 == 1, s));
            evaluations += 1;
            *per_family.entry(family.to_string()).or_insert(0) += 1;
            let (plain, mock) = match (plain, mock) {
                (Ok(p), Ok(m)) => (p, m),
                (p, m) => {
                    violations += 1;
                    if violations <= 5 {
                        let what = format!(
                            "plain struct {}, mock {}",
                            if p.is_ok() { "completed" } else { "panicked" },
                            match &m {
                                Ok(_) => "completed".to_string(),
                                Err(e) => format!(
                                    "panicked: {}",
                                    e.downcast_ref::<String>().cloned().or(e.downcast_ref::<&str>().map(|s| s.to_string())).unwrap_or_default()
                                ),
                            }
                        );
                        println!(
                            "VIOLATION_CASE {}",
                            Obj::new().str("family", family).num("seed", seed).num("index", index).str("what", &what).build()
                        );
                    }
                    continue;
                }
            };
            calls_logged += plain.1.len() as u64;
            if plain.1.len() >= 2 {
                distinct.insert(harness::prng::fnv(format!("{family}{:?}", plain.1).as_bytes()));
            }
            if samples.len() < 4 && index == 3 {
                samples.push(format!("{family}: results {:?}; required-method calls {:?}", plain.0, plain.1));
            }
            if plain != mock {
                violations += 1;
                if violations <= 5 {
                    let what = if plain.0 != mock.0 {
                        format!("results differ: plain {:?} vs mock {:?}", plain.0, mock.0)
                    } else if plain.1 != mock.1 {
                        format!("required-method call sequences differ: plain {:?} vs mock {:?}", plain.1, mock.1)
                    } else {
                        format!("written bytes differ: plain {:?} vs mock {:?}", plain.2, mock.2)
                    };
                    println!(
                        "VIOLATION_CASE {}",
                        Obj::new().str("family", family).num("seed", seed).num("index", index).str("what", &what).build()
                    );
                }
            }
        }
    }
    let covered: Vec<String> = COVERED.iter().flat_map(|(_, m)| m.iter().map(|s| esc(s))).collect();
    println!(
        "SUMMARY {}",
        Obj::new()
            .num("evaluations", evaluations)
            .num("violations", violations)
            .num("required_calls_logged", calls_logged)
            .num("distinct_nontrivial", distinct.len())
            .raw("per_family", map_counts(per_family.into_iter()))
            .raw("covered", arr(covered))
            .raw("samples", arr(samples.iter().map(|s| esc(s))))
            .build()
    );
}
