//! Description of a test case: a clause tree (as data), a history of operations, and the methods of the fixed universe.

use std::fmt;

/// Methods of the fixed universe (see universe.rs)
#[derive(Clone, Copy, Debug, PartialEq, Eq, Hash, PartialOrd, Ord)]
pub enum MethodId {
    A0,
    A1,
    A2,
    A3,
    B0,
    B1,
    B2,
    /// generic method g::<u8>
    G8,
    /// generic method g::<u16>
    G16,
    /// hand-written MockFn, partial-by-default, has a real function
    H0,
    /// hand-written MockFn, partial-by-default, without a real function
    H1,
}

pub const ALL_METHODS: [MethodId; 11] = [
    MethodId::A0,
    MethodId::A1,
    MethodId::A2,
    MethodId::A3,
    MethodId::B0,
    MethodId::B1,
    MethodId::B2,
    MethodId::G8,
    MethodId::G16,
    MethodId::H0,
    MethodId::H1,
];

impl MethodId {
    pub fn idx(self) -> usize {
        ALL_METHODS.iter().position(|m| *m == self).unwrap()
    }
    pub fn arity(self) -> usize {
        match self {
            MethodId::A0 => 0,
            MethodId::A2 => 2,
            _ => 1,
        }
    }
    pub fn trait_name(self) -> &'static str {
        match self {
            MethodId::A0 | MethodId::A1 | MethodId::A2 | MethodId::A3 => "A",
            MethodId::B0 | MethodId::B1 | MethodId::B2 => "B",
            MethodId::G8 | MethodId::G16 => "G",
            MethodId::H0 | MethodId::H1 => "H",
        }
    }
    pub fn method_name(self) -> &'static str {
        match self {
            MethodId::A0 => "a0",
            MethodId::A1 => "a1",
            MethodId::A2 => "a2",
            MethodId::A3 => "a3",
            MethodId::B0 => "b0",
            MethodId::B1 => "b1",
            MethodId::B2 => "b2",
            MethodId::G8 | MethodId::G16 => "g",
            MethodId::H0 => "h0",
            MethodId::H1 => "h1",
        }
    }
    pub fn path(self) -> String {
        format!("{}::{}", self.trait_name(), self.method_name())
    }
    /// does the trait method have a default body
    pub fn has_default(self) -> bool {
        matches!(self, MethodId::B1 | MethodId::B2)
    }
    /// is a real ("unmock") function registered
    pub fn has_real(self) -> bool {
        matches!(
            self,
            MethodId::A0 | MethodId::A1 | MethodId::A2 | MethodId::B2 | MethodId::H0
        )
    }
    pub fn partial_by_default(self) -> bool {
        matches!(self, MethodId::H0 | MethodId::H1)
    }
    /// number of distinct argument tuples in the finite domain {0,1,2}^arity
    pub fn domain_size(self) -> usize {
        3usize.pow(self.arity() as u32)
    }
    pub fn arg_code(self, args: &[u8]) -> usize {
        match self.arity() {
            0 => 0,
            1 => args[0] as usize,
            _ => args[0] as usize * 3 + args[1] as usize,
        }
    }
    pub fn args_from_code(self, code: usize) -> Vec<u8> {
        match self.arity() {
            0 => vec![],
            1 => vec![code as u8],
            _ => vec![(code / 3) as u8, (code % 3) as u8],
        }
    }
}

#[derive(Clone, Copy, Debug, PartialEq, Eq, Hash)]
pub enum PatKind {
    SomeCall,
    EachCall,
    NextCall,
    /// one `each.call(..)` inside a `stub(|each| ..)`
    InStub,
}

impl PatKind {
    pub fn ordered(self) -> bool {
        self == PatKind::NextCall
    }
    /// does the builder start in the `DefineResponse` state (single-use `returns`)
    pub fn starts_single(self) -> bool {
        matches!(self, PatKind::SomeCall | PatKind::NextCall)
    }
}

#[derive(Clone, Copy, Debug, PartialEq, Eq, Hash)]
pub enum Resp {
    /// `.returns(value)`
    Ret,
    /// `.returns_default()`
    RetDefault,
    /// `.answers(&'static fn)`; the index selects one of the static answer functions of the method
    Answer(usize),
    /// `.answers_arc(Arc<closure>)`
    AnswerArc,
    /// `.panics(msg)`
    Panics,
    /// `.applies_unmocked()`
    Unmock,
    /// `.applies_default_impl()`
    DefaultImpl,
}

#[derive(Clone, Copy, Debug, PartialEq, Eq, Hash)]
pub enum Quant {
    None,
    Once,
    N(usize),
    AtLeast(usize),
}

impl Quant {
    pub fn count(self) -> usize {
        match self {
            Quant::None => 0,
            Quant::Once => 1,
            Quant::N(n) | Quant::AtLeast(n) => n,
        }
    }
    pub fn is_exact(self) -> bool {
        matches!(self, Quant::Once | Quant::N(_))
    }
}

#[derive(Clone, Copy, Debug, PartialEq, Eq, Hash)]
pub struct Seg {
    pub resp: Resp,
    pub quant: Quant,
}

#[derive(Clone, Copy, Debug, PartialEq, Eq, Hash)]
pub enum MatcherKind {
    /// `m.func(..)` with the predicate given by the mask, plus `m.pat_debug(..)`
    Mask,
    /// pat_debug only, no function (NoMatcherFunction error when evaluated)
    NoFunc,
    /// function but no pat_debug (pattern is named by index in messages)
    NoDebug,
}

#[derive(Clone, Debug, PartialEq, Eq, Hash)]
pub struct PatternSpec {
    /// unique within the case; also the "line" and label of the pattern
    pub uid: usize,
    pub method: MethodId,
    pub kind: PatKind,
    /// bit i set <=> the predicate accepts the argument tuple with code i
    pub mask: u16,
    pub matcher: MatcherKind,
    pub segs: Vec<Seg>,
}

impl PatternSpec {
    pub fn accepts(&self, args: &[u8]) -> bool {
        self.mask & (1 << self.method.arg_code(args)) != 0
    }
}

#[derive(Clone, Debug, PartialEq, Eq, Hash)]
pub enum ClauseTree {
    /// `()`
    Unit,
    Single(PatternSpec),
    /// `F.stub(|each| { .. })`; may be empty
    Stub(MethodId, Vec<PatternSpec>),
    /// real tuple of arity 2..=16
    Tuple(Vec<ClauseTree>),
}

impl ClauseTree {
    /// terminal leaves, depth-first, left to right
    pub fn leaves(&self) -> Vec<&ClauseTree> {
        let mut out = vec![];
        fn rec<'a>(t: &'a ClauseTree, out: &mut Vec<&'a ClauseTree>) {
            match t {
                ClauseTree::Tuple(items) => items.iter().for_each(|i| rec(i, out)),
                other => out.push(other),
            }
        }
        rec(self, &mut out);
        out
    }

    pub fn patterns(&self) -> Vec<&PatternSpec> {
        let mut out = vec![];
        for leaf in self.leaves() {
            match leaf {
                ClauseTree::Single(p) => out.push(p),
                ClauseTree::Stub(_, ps) => out.extend(ps.iter()),
                _ => {}
            }
        }
        out
    }

    pub fn max_arity(&self) -> usize {
        match self {
            ClauseTree::Tuple(items) => items
                .iter()
                .map(|i| i.max_arity())
                .max()
                .unwrap_or(0)
                .max(items.len()),
            _ => 1,
        }
    }

    /// every tuple arity occurring anywhere in the tree
    pub fn arities(&self, out: &mut std::collections::BTreeSet<usize>) {
        if let ClauseTree::Tuple(items) = self {
            out.insert(items.len());
            items.iter().for_each(|i| i.arities(out));
        }
    }

    pub fn depth(&self) -> usize {
        match self {
            ClauseTree::Tuple(items) => 1 + items.iter().map(|i| i.depth()).max().unwrap_or(0),
            _ => 0,
        }
    }
}

/// Which instance an operation targets: 0 = the original, k>0 = clone number k (in creation order)
pub type Inst = usize;

#[derive(Clone, Copy, Debug, PartialEq, Eq, Hash)]
pub enum Inject {
    /// user panic thrown by the matcher of the pattern with this uid (one shot)
    Matcher(usize),
    /// user panic thrown by the next answer function that runs
    Answer,
    /// user panic thrown by the next real ("unmock") function that runs
    Real,
    /// user panic thrown by the next default body that runs
    DefaultBody,
}

#[derive(Clone, Debug, PartialEq, Eq, Hash)]
pub enum Op {
    Call {
        inst: Inst,
        method: MethodId,
        args: Vec<u8>,
        /// run the call on a freshly spawned helper thread
        on_thread: bool,
        inject: Option<Inject>,
    },
    Clone {
        from: Inst,
    },
    DropClone(Inst),
    /// `verify()` on the original
    Verify,
    /// `Termination::report()` on the original
    Report,
    /// `no_verify_in_drop()` on the original
    NoVerifyInDrop,
    /// drop the original (on the creator thread)
    DropOriginal,
    /// move the original to a helper thread and drop it there
    DropOriginalOnThread,
    /// `verify()` on a clone (must panic)
    VerifyClone(Inst),
    /// `no_verify_in_drop()` on a clone (must panic)
    NoVerifyInDropClone(Inst),
    /// `make_ref` on an instance (lends a value; irrelevant for counts)
    MakeRef(Inst),
    /// `inst.make_ref(inst.clone())`: a clone that is owned by the instance's own value chain
    MakeRefClone(Inst),
}

#[derive(Clone, Debug, PartialEq, Eq, Hash)]
pub struct Case {
    pub partial: bool,
    pub clauses: ClauseTree,
    pub history: Vec<Op>,
}

impl Case {
    pub fn hash64(&self) -> u64 {
        use std::hash::{Hash, Hasher};
        let mut h = std::collections::hash_map::DefaultHasher::new();
        self.hash(&mut h);
        h.finish()
    }
}

// ---------- compact human readable rendering (for samples and replay files) ----------

impl fmt::Display for Seg {
    fn fmt(&self, f: &mut fmt::Formatter<'_>) -> fmt::Result {
        match self.resp {
            Resp::Ret => write!(f, "returns")?,
            Resp::RetDefault => write!(f, "returns_default")?,
            Resp::Answer(k) => write!(f, "answers#{k}")?,
            Resp::AnswerArc => write!(f, "answers_arc")?,
            Resp::Panics => write!(f, "panics")?,
            Resp::Unmock => write!(f, "applies_unmocked")?,
            Resp::DefaultImpl => write!(f, "applies_default_impl")?,
        }
        match self.quant {
            Quant::None => Ok(()),
            Quant::Once => write!(f, ".once"),
            Quant::N(n) => write!(f, ".n_times({n})"),
            Quant::AtLeast(n) => write!(f, ".at_least_times({n})"),
        }
    }
}

impl fmt::Display for PatternSpec {
    fn fmt(&self, f: &mut fmt::Formatter<'_>) -> fmt::Result {
        let kind = match self.kind {
            PatKind::SomeCall => "some_call",
            PatKind::EachCall => "each_call",
            PatKind::NextCall => "next_call",
            PatKind::InStub => "call",
        };
        write!(
            f,
            "{}.{}[P{} mask={:#b}{}]",
            self.method.path(),
            kind,
            self.uid,
            self.mask,
            match self.matcher {
                MatcherKind::Mask => "",
                MatcherKind::NoFunc => " nofunc",
                MatcherKind::NoDebug => " nodebug",
            }
        )?;
        for (i, seg) in self.segs.iter().enumerate() {
            if i > 0 {
                write!(f, ".then")?;
            }
            write!(f, ".{seg}")?;
        }
        Ok(())
    }
}

impl fmt::Display for ClauseTree {
    fn fmt(&self, f: &mut fmt::Formatter<'_>) -> fmt::Result {
        match self {
            ClauseTree::Unit => write!(f, "()"),
            ClauseTree::Single(p) => write!(f, "{p}"),
            ClauseTree::Stub(m, ps) => {
                write!(f, "{}.stub{{", m.path())?;
                for (i, p) in ps.iter().enumerate() {
                    if i > 0 {
                        write!(f, "; ")?;
                    }
                    write!(f, "{p}")?;
                }
                write!(f, "}}")
            }
            ClauseTree::Tuple(items) => {
                write!(f, "(")?;
                for (i, it) in items.iter().enumerate() {
                    if i > 0 {
                        write!(f, ", ")?;
                    }
                    write!(f, "{it}")?;
                }
                write!(f, ")")
            }
        }
    }
}

impl fmt::Display for Op {
    fn fmt(&self, f: &mut fmt::Formatter<'_>) -> fmt::Result {
        match self {
            Op::Call {
                inst,
                method,
                args,
                on_thread,
                inject,
            } => {
                write!(f, "i{inst}.{}{:?}", method.method_name(), args)?;
                if *method == MethodId::G16 {
                    write!(f, "::<u16>")?;
                }
                if *on_thread {
                    write!(f, "@thread")?;
                }
                if let Some(i) = inject {
                    write!(f, "!{i:?}")?;
                }
                Ok(())
            }
            Op::Clone { from } => write!(f, "clone(i{from})"),
            Op::DropClone(k) => write!(f, "drop(i{k})"),
            Op::Verify => write!(f, "verify()"),
            Op::Report => write!(f, "report()"),
            Op::NoVerifyInDrop => write!(f, "no_verify_in_drop()"),
            Op::DropOriginal => write!(f, "drop(i0)"),
            Op::DropOriginalOnThread => write!(f, "drop(i0)@thread"),
            Op::VerifyClone(k) => write!(f, "i{k}.verify()"),
            Op::NoVerifyInDropClone(k) => write!(f, "i{k}.no_verify_in_drop()"),
            Op::MakeRef(k) => write!(f, "i{k}.make_ref()"),
            Op::MakeRefClone(k) => write!(f, "i{k}.make_ref(i{k}.clone())"),
        }
    }
}

impl fmt::Display for Case {
    fn fmt(&self, f: &mut fmt::Formatter<'_>) -> fmt::Result {
        write!(
            f,
            "{} {} ; history:",
            if self.partial { "new_partial" } else { "new" },
            self.clauses
        )?;
        for op in &self.history {
            write!(f, " {op}")?;
        }
        Ok(())
    }
}
