pub mod acc;
pub mod case;
pub mod conc;
pub mod lin12;
pub mod sched;
pub mod stress;
pub mod toks;
pub mod check;
pub mod exec;
pub mod gen;
pub mod json;
pub mod meta;
pub mod prng;
pub mod spec;
pub mod universe;

pub fn build_cfg() -> spec::BuildCfg {
    spec::BuildCfg {
        std: cfg!(feature = "cfg-std"),
        has_lock: cfg!(any(feature = "cfg-std", feature = "cfg-nostd-spin")),
    }
}

pub fn build_cfg_name() -> &'static str {
    if cfg!(feature = "cfg-std") {
        "std"
    } else if cfg!(feature = "cfg-nostd-spin") {
        "nostd-spin"
    } else {
        "nostd-nolock"
    }
}
