pub mod acc;
pub mod case;
#[cfg(not(feature = "cfg-nostd-nolock"))]
pub mod conc;
#[cfg(not(feature = "cfg-nostd-nolock"))]
pub mod lin12;
#[cfg(not(feature = "cfg-nostd-nolock"))]
pub mod sched;
#[cfg(not(feature = "cfg-nostd-nolock"))]
pub mod stress;
pub mod toks;
pub mod check;
pub mod exec;
pub mod gen;
pub mod json;
pub mod meta;
pub mod prng;
pub mod spec;
pub mod universe;

pub fn build_cfg() -> spec::BuildCfg {
    spec::BuildCfg {
        std: cfg!(feature = "cfg-std"),
        has_lock: cfg!(any(feature = "cfg-std", feature = "cfg-nostd-spin")),
    }
}

pub fn build_cfg_name() -> &'static str {
    if cfg!(feature = "cfg-std") {
        "std"
    } else if cfg!(feature = "cfg-nostd-spin") {
        "nostd-spin"
    } else {
        "nostd-nolock"
    }
}
