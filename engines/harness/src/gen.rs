//! Case generators. A `Profile` shapes the distribution for the property being checked; the generator may
//! consult Spec-M to *steer* histories (e.g. towards count boundaries or along the expected ordered sequence).
//! Steering only shapes the workload, the verdict is always given by `check`.

use crate::case::*;
use crate::prng::Rng;
use crate::spec::{BuildCfg, Spec, Variant};
use crate::universe::{w16_supported, MAX_PATTERNS, N_STATIC_ANS};

#[derive(Clone, Debug)]
pub struct Profile {
    pub name: &'static str,
    pub method_pool: Vec<MethodId>,
    pub n_methods: (usize, usize),
    pub pats_per_method: (usize, usize),
    /// probability (in percent) that a method is given ordered (`next_call`) patterns
    pub pct_ordered: usize,
    pub pct_partial: usize,
    pub max_segs: usize,
    pub max_count: usize,
    /// weights for Ret, RetDefault, Answer, AnswerArc, Panics, Unmock, DefaultImpl
    pub resp_weights: [usize; 7],
    pub pct_stub: usize,
    pub pct_nofunc: usize,
    pub pct_nodebug: usize,
    pub pct_full_mask: usize,
    pub hist_len: (usize, usize),
    /// percent of calls that target a method no clause mentions
    pub pct_unmentioned_call: usize,
    /// percent of calls steered (args chosen so that a specific pattern is the first to accept)
    pub pct_steered: usize,
    /// percent of ordered calls that follow the expected sequence
    pub pct_follow_order: usize,
    pub pct_clone_op: usize,
    pub pct_thread: usize,
    pub pct_inject: usize,
    pub pct_lifecycle: usize,
    pub max_clones: usize,
    /// percent of cases with a deliberately inconsistent setup
    pub pct_build_error: usize,
    pub nested_tuples: bool,
    /// force one tuple of this arity somewhere (0 = no)
    pub force_arity: usize,
    /// steer the final counts of patterns towards their bounds
    pub boundary_steer: bool,
    /// avoid histories with mock-induced panics when steering (C03 wants clean histories)
    pub avoid_errors: bool,
}

impl Profile {
    pub fn base(name: &'static str) -> Profile {
        Profile {
            name,
            method_pool: vec![
                MethodId::A0,
                MethodId::A1,
                MethodId::A2,
                MethodId::A3,
                MethodId::B0,
                MethodId::B1,
                MethodId::B2,
                MethodId::G8,
                MethodId::G16,
                MethodId::H0,
                MethodId::H1,
            ],
            n_methods: (1, 4),
            pats_per_method: (1, 4),
            pct_ordered: 25,
            pct_partial: 30,
            max_segs: 3,
            max_count: 3,
            resp_weights: [10, 2, 2, 3, 1, 2, 1],
            pct_stub: 30,
            pct_nofunc: 1,
            pct_nodebug: 5,
            pct_full_mask: 15,
            hist_len: (1, 14),
            pct_unmentioned_call: 8,
            pct_steered: 40,
            pct_follow_order: 85,
            pct_clone_op: 8,
            pct_thread: 5,
            pct_inject: 3,
            pct_lifecycle: 0,
            max_clones: 3,
            pct_build_error: 2,
            nested_tuples: true,
            force_arity: 0,
            boundary_steer: false,
            avoid_errors: false,
        }
    }

    pub fn for_property(prop: &str) -> Profile {
        let mut p = Profile::base("generic");
        match prop {
            "C01" => {
                p.name = "C01-first-match";
                p.pct_ordered = 5;
                p.pats_per_method = (1, 6);
                p.max_segs = 2;
                p.hist_len = (1, 16);
                p.pct_steered = 30;
                p.pct_lifecycle = 0;
                p.resp_weights = [10, 1, 2, 3, 1, 1, 1];
            }
            "C02" | "C12" => {
                p.name = "C02-chains";
                p.n_methods = (1, 2);
                p.pats_per_method = (1, 2);
                p.max_segs = 4;
                p.max_count = 3;
                p.pct_ordered = 35;
                p.hist_len = (1, 16);
                p.pct_steered = 80;
                p.resp_weights = [8, 2, 3, 3, 2, 2, 2];
            }
            "C03" => {
                p.name = "C03-verification";
                p.pats_per_method = (1, 4);
                p.max_segs = 3;
                p.pct_ordered = 10;
                p.boundary_steer = true;
                p.avoid_errors = true;
                p.pct_inject = 0;
                p.pct_nofunc = 0;
                p.pct_unmentioned_call = 0;
                p.hist_len = (0, 20);
                p.resp_weights = [10, 2, 2, 3, 0, 1, 1];
                p.pct_build_error = 0;
                p.pct_lifecycle = 5;
            }
            "C04" => {
                p.name = "C04-ordered";
                p.n_methods = (2, 4);
                p.pats_per_method = (1, 4);
                p.pct_ordered = 75;
                p.max_segs = 3;
                p.hist_len = (1, 14);
                p.pct_follow_order = 88;
            }
            "C07" | "C15" | "C16" => {
                p.name = "C07-fallthrough";
                p.n_methods = (0, 4);
                p.pats_per_method = (1, 3);
                p.pct_partial = 50;
                p.pct_unmentioned_call = 45;
                p.pct_steered = 10;
                p.pct_full_mask = 5;
                p.resp_weights = [8, 1, 2, 2, 1, 4, 4];
                p.hist_len = (1, 11);
            }
            "C08" | "C19" => {
                p.name = "C08-errors";
                p.pct_inject = 12;
                p.pct_thread = 30;
                p.pct_clone_op = 15;
                p.pct_unmentioned_call = 12;
                p.pct_nofunc = 4;
                p.resp_weights = [8, 1, 3, 3, 4, 3, 3];
                p.hist_len = (1, 12);
                p.pct_lifecycle = 6;
            }
            "C11" => {
                p.name = "C11-caught-user-panics";
                p.pct_inject = 35;
                p.pct_thread = 15;
                p.pct_clone_op = 10;
                p.pct_lifecycle = 4;
                p.pct_build_error = 0;
                p.pct_nofunc = 0;
                p.resp_weights = [6, 1, 4, 4, 1, 3, 3];
                p.pct_partial = 45;
                p.pct_unmentioned_call = 15;
                p.hist_len = (2, 14);
            }
            "C09" => {
                p.name = "C09-lifecycle";
                p.n_methods = (0, 3);
                p.pats_per_method = (1, 2);
                p.max_segs = 2;
                p.pct_lifecycle = 60;
                p.pct_clone_op = 0;
                p.pct_thread = 15;
                p.hist_len = (1, 10);
                p.pct_inject = 2;
                p.pct_build_error = 0;
            }
            "C14" => {
                p.name = "C14-composition";
                p.n_methods = (2, 6);
                p.pats_per_method = (1, 6);
                p.pct_ordered = 60;
                p.max_segs = 2;
                p.pct_build_error = 25;
                p.hist_len = (0, 24);
                p.pct_follow_order = 97;
                p.pct_stub = 20;
            }
            "C18" => {
                p.name = "C18-metamorphic";
                p.n_methods = (2, 5);
                p.pct_build_error = 0;
                p.pct_lifecycle = 0;
                p.pct_clone_op = 0;
                p.pct_thread = 0;
                p.hist_len = (1, 14);
            }
            _ => {}
        }
        p
    }
}

fn weighted(rng: &mut Rng, weights: &[usize]) -> usize {
    let total: usize = weights.iter().sum();
    let mut x = rng.below(total.max(1));
    for (i, w) in weights.iter().enumerate() {
        if x < *w {
            return i;
        }
        x -= w;
    }
    0
}

struct GenCtx<'a> {
    rng: &'a mut Rng,
    prof: &'a Profile,
    cfg: BuildCfg,
    static_answers_used: usize,
}

impl GenCtx<'_> {
    fn pct(&mut self, p: usize) -> bool {
        p > 0 && self.rng.below(100) < p
    }

    fn gen_resp(&mut self, method: MethodId) -> Resp {
        loop {
            let r = match weighted(self.rng, &self.prof.resp_weights) {
                0 => Resp::Ret,
                1 => Resp::RetDefault,
                2 => {
                    if self.static_answers_used < N_STATIC_ANS {
                        self.static_answers_used += 1;
                        Resp::Answer(self.static_answers_used - 1)
                    } else {
                        Resp::AnswerArc
                    }
                }
                3 => Resp::AnswerArc,
                4 => Resp::Panics,
                5 => Resp::Unmock,
                _ => Resp::DefaultImpl,
            };
            // keep the rarely useful "no real function / no default body" responses rare but present
            match r {
                Resp::Unmock if !method.has_real() && !self.pct(20) => continue,
                Resp::DefaultImpl if !method.has_default() && !self.pct(20) => continue,
                _ => return r,
            }
        }
    }

    fn gen_count(&mut self) -> usize {
        // 0 is legal but rare
        if self.pct(8) {
            0
        } else {
            self.rng.range(1, self.prof.max_count.max(1))
        }
    }

    fn gen_segs(&mut self, method: MethodId, kind: PatKind) -> Vec<Seg> {
        let n = if self.pct(55) {
            1
        } else {
            self.rng.range(1, self.prof.max_segs.max(1))
        };
        let ordered = kind.ordered();
        let mut segs = vec![];
        for i in 0..n {
            let last = i + 1 == n;
            let resp = self.gen_resp(method);
            let quant = if !last {
                if self.pct(40) {
                    Quant::Once
                } else {
                    Quant::N(self.gen_count())
                }
            } else {
                match self.rng.below(10) {
                    0..=3 => Quant::None,
                    4..=5 => Quant::Once,
                    6..=7 => Quant::N(self.gen_count()),
                    _ => {
                        if ordered {
                            Quant::N(self.gen_count())
                        } else {
                            Quant::AtLeast(self.gen_count())
                        }
                    }
                }
            };
            segs.push(Seg { resp, quant });
        }
        // in a no-lock build single-use returns cannot be constructed; mostly avoid them, sometimes keep them
        if !self.cfg.has_lock
            && kind.starts_single()
            && segs[0].resp == Resp::Ret
            && matches!(segs[0].quant, Quant::None | Quant::Once)
            && !self.pct(self.prof.pct_build_error)
        {
            segs[0].quant = Quant::N(1);
        }
        segs
    }

    fn gen_mask(&mut self, method: MethodId) -> u16 {
        let dom = method.domain_size();
        let full: u16 = ((1u32 << dom) - 1) as u16;
        if self.pct(self.prof.pct_full_mask) {
            return full;
        }
        match self.rng.below(6) {
            0 => 1 << self.rng.below(dom), // a single tuple
            1 => full & !(1 << self.rng.below(dom)),
            _ => {
                let m = (self.rng.next_u64() as u16) & full;
                if m == 0 && self.pct(90) {
                    1 << self.rng.below(dom)
                } else {
                    m
                }
            }
        }
    }
}

/// Arrange leaves into a tree of real tuples.
fn arrange(rng: &mut Rng, mut leaves: Vec<ClauseTree>, nested: bool, depth: usize) -> ClauseTree {
    match leaves.len() {
        0 => ClauseTree::Unit,
        1 => {
            if nested && depth < 3 && rng.chance(1, 10) {
                // a tuple with a unit partner
                let leaf = leaves.pop().unwrap();
                if rng.chance(1, 2) {
                    ClauseTree::Tuple(vec![leaf, ClauseTree::Unit])
                } else {
                    ClauseTree::Tuple(vec![ClauseTree::Unit, leaf])
                }
            } else {
                leaves.pop().unwrap()
            }
        }
        n => {
            let k = if !nested || depth >= 3 {
                n.min(16)
            } else {
                rng.range(2, n.min(16))
            };
            if k == n && n <= 16 {
                return ClauseTree::Tuple(leaves);
            }
            // split into k non-empty consecutive groups
            let mut cuts: Vec<usize> = (1..n).collect();
            rng.shuffle(&mut cuts);
            let mut cuts: Vec<usize> = cuts.into_iter().take(k - 1).collect();
            cuts.sort();
            let mut groups = vec![];
            let mut start = 0;
            for c in cuts.into_iter().chain(std::iter::once(n)) {
                groups.push(leaves[start..c].to_vec());
                start = c;
            }
            ClauseTree::Tuple(
                groups
                    .into_iter()
                    .map(|g| arrange(rng, g, nested, depth + 1))
                    .collect(),
            )
        }
    }
}

/// All tuples must have arity 2..=16; with > 16 leaves and no nesting allowed we still need nesting.
fn fix_wide(tree: ClauseTree) -> ClauseTree {
    match tree {
        ClauseTree::Tuple(items) if items.len() > 16 => {
            let mut chunks: Vec<ClauseTree> = vec![];
            let mut it = items.into_iter().map(fix_wide).peekable();
            while it.peek().is_some() {
                let chunk: Vec<ClauseTree> = it.by_ref().take(16).collect();
                chunks.push(if chunk.len() == 1 {
                    chunk.into_iter().next().unwrap()
                } else {
                    ClauseTree::Tuple(chunk)
                });
            }
            fix_wide(ClauseTree::Tuple(chunks))
        }
        ClauseTree::Tuple(items) => ClauseTree::Tuple(items.into_iter().map(fix_wide).collect()),
        other => other,
    }
}

pub fn gen_clauses(rng: &mut Rng, prof: &Profile, cfg: BuildCfg) -> ClauseTree {
    let mut g = GenCtx {
        rng,
        prof,
        cfg,
        static_answers_used: 0,
    };
    let n_methods = g.rng.range(prof.n_methods.0, prof.n_methods.1);
    let mut pool = prof.method_pool.clone();
    g.rng.shuffle(&mut pool);
    let methods: Vec<MethodId> = pool.into_iter().take(n_methods).collect();

    // per method: mode and number of patterns; then a global declaration order
    struct Plan {
        method: MethodId,
        ordered: bool,
        n: usize,
    }
    let mut plans = vec![];
    for m in &methods {
        let ordered = g.pct(prof.pct_ordered);
        let mut n = g.rng.range(prof.pats_per_method.0, prof.pats_per_method.1);
        if *m == MethodId::G16 {
            n = n.min(2);
        }
        plans.push(Plan {
            method: *m,
            ordered,
            n,
        });
    }
    let mut order: Vec<usize> = vec![];
    for (i, p) in plans.iter().enumerate() {
        for _ in 0..p.n {
            order.push(i);
        }
    }
    g.rng.shuffle(&mut order);
    order.truncate(MAX_PATTERNS - 8);

    let build_error = g.pct(prof.pct_build_error);

    // group consecutive unordered patterns of the same method into stubs sometimes
    let mut leaves: Vec<ClauseTree> = vec![];
    let mut i = 0;
    let mut uid = 0usize;
    while i < order.len() {
        let plan = &plans[order[i]];
        let method = plan.method;
        let mut run = 1;
        while i + run < order.len() && order[i + run] == order[i] {
            run += 1;
        }
        if !plan.ordered && method != MethodId::G16 && g.pct(prof.pct_stub) {
            let take = g.rng.range(1, run);
            let mut pats = vec![];
            for _ in 0..take {
                let mut p = gen_pattern(&mut g, method, PatKind::InStub, uid);
                if g.pct(3) {
                    // a pattern left without any response
                    p.segs.clear();
                }
                pats.push(p);
                uid += 1;
            }
            leaves.push(ClauseTree::Stub(method, pats));
            i += take;
        } else {
            let kind = if plan.ordered {
                PatKind::NextCall
            } else if g.pct(50) {
                PatKind::SomeCall
            } else {
                PatKind::EachCall
            };
            let p = gen_pattern(&mut g, method, kind, uid);
            uid += 1;
            leaves.push(ClauseTree::Single(p));
            i += 1;
        }
    }

    if build_error && !leaves.is_empty() {
        match g.rng.below(3) {
            0 => {
                // empty stub at a random position
                let pos = g.rng.below(leaves.len() + 1);
                let m = *g.rng.pick(&prof.method_pool);
                if m != MethodId::G16 {
                    leaves.insert(pos, ClauseTree::Stub(m, vec![]));
                }
            }
            _ => {
                // a clause of the other mode for an already mentioned method, at a random position
                let pats: Vec<(MethodId, bool)> = leaves
                    .iter()
                    .flat_map(|l| match l {
                        ClauseTree::Single(p) => vec![(p.method, p.kind.ordered())],
                        ClauseTree::Stub(m, ps) if !ps.is_empty() => vec![(*m, false)],
                        _ => vec![],
                    })
                    .collect();
                if let Some((m, ordered)) = pats.get(g.rng.below(pats.len().max(1))).copied() {
                    let kind = if ordered {
                        if g.pct(50) {
                            PatKind::EachCall
                        } else {
                            PatKind::SomeCall
                        }
                    } else {
                        PatKind::NextCall
                    };
                    let mut p = gen_pattern(&mut g, m, kind, uid);
                    if m == MethodId::G16 {
                        p.segs = vec![Seg {
                            resp: Resp::Ret,
                            quant: Quant::None,
                        }];
                        p.matcher = MatcherKind::Mask;
                    }
                    let pos = g.rng.below(leaves.len() + 1);
                    leaves.insert(pos, ClauseTree::Single(p));
                    // uids must follow declaration order: renumber below
                }
            }
        }
    }

    // renumber uids in declaration order (labels/lines are the uid)
    let mut next = 0usize;
    for leaf in leaves.iter_mut() {
        match leaf {
            ClauseTree::Single(p) => {
                p.uid = next;
                next += 1;
            }
            ClauseTree::Stub(_, ps) => {
                for p in ps {
                    p.uid = next;
                    next += 1;
                }
            }
            _ => {}
        }
    }

    // occasional unit clauses
    if g.pct(10) {
        let pos = g.rng.below(leaves.len() + 1);
        leaves.insert(pos, ClauseTree::Unit);
    }

    let tree = if prof.force_arity >= 2 && leaves.len() >= prof.force_arity {
        // one tuple of exactly the forced arity at the top, remaining leaves nested inside random elements
        let k = prof.force_arity;
        let n = leaves.len();
        let mut cuts: Vec<usize> = (1..n).collect();
        g.rng.shuffle(&mut cuts);
        let mut cuts: Vec<usize> = cuts.into_iter().take(k - 1).collect();
        cuts.sort();
        let mut groups = vec![];
        let mut start = 0;
        for c in cuts.into_iter().chain(std::iter::once(n)) {
            groups.push(leaves[start..c].to_vec());
            start = c;
        }
        let nested = prof.nested_tuples;
        ClauseTree::Tuple(
            groups
                .into_iter()
                .map(|grp| arrange(g.rng, grp, nested, 1))
                .collect(),
        )
    } else {
        arrange(g.rng, leaves, prof.nested_tuples, 0)
    };
    fix_wide(tree)
}

fn gen_pattern(g: &mut GenCtx<'_>, method: MethodId, kind: PatKind, uid: usize) -> PatternSpec {
    let mut p = PatternSpec {
        uid,
        method,
        kind,
        mask: g.gen_mask(method),
        matcher: if g.pct(g.prof.pct_nofunc) {
            MatcherKind::NoFunc
        } else if g.pct(g.prof.pct_nodebug) {
            MatcherKind::NoDebug
        } else {
            MatcherKind::Mask
        },
        segs: g.gen_segs(method, kind),
    };
    if method == MethodId::G16 && !w16_supported(&p) {
        p.matcher = MatcherKind::Mask;
        p.segs = vec![Seg {
            resp: if g.pct(30) && kind == PatKind::EachCall {
                Resp::AnswerArc
            } else {
                Resp::Ret
            },
            quant: if g.pct(50) {
                Quant::None
            } else {
                Quant::N(g.gen_count())
            },
        }];
        if p.segs[0].resp == Resp::AnswerArc {
            p.segs[0].quant = Quant::None;
        }
        if p.kind == PatKind::InStub {
            p.kind = PatKind::EachCall;
        }
    }
    p
}

/// Find an argument tuple for which `target` is the first accepting pattern of its (unordered) method.
fn args_selecting(spec: &Spec, target: usize) -> Option<Vec<u8>> {
    let t = &spec.pats[target];
    let (_, list) = spec.methods.get(&t.method)?;
    let mut shadow: u16 = 0;
    for &pi in list {
        if pi == target {
            break;
        }
        shadow |= spec.pats[pi].mask;
    }
    let avail = t.mask & !shadow;
    if avail == 0 {
        return None;
    }
    let codes: Vec<usize> = (0..t.method.domain_size())
        .filter(|c| avail & (1 << c) != 0)
        .collect();
    Some(t.method.args_from_code(codes[0]))
}

pub fn gen_history(rng: &mut Rng, prof: &Profile, case_partial: bool, tree: &ClauseTree, cfg: BuildCfg) -> Vec<Op> {
    let mut spec = match Spec::build(case_partial, tree, cfg, Variant::True) {
        Ok(s) => s,
        Err(_) => return vec![],
    };
    let len = rng.range(prof.hist_len.0, prof.hist_len.1);
    let mut ops = vec![];
    let mentioned: Vec<MethodId> = spec.methods.keys().copied().collect();
    let unmentioned: Vec<MethodId> = prof
        .method_pool
        .iter()
        .copied()
        .filter(|m| !mentioned.contains(m))
        .collect();

    // boundary steering: target count per pattern relative to its bound
    let mut targets: Vec<usize> = vec![];
    if prof.boundary_steer {
        for p in &spec.pats {
            let t = match rng.below(10) {
                0..=2 => p.lower.saturating_sub(1),
                3..=6 => p.lower,
                7..=8 => p.lower + 1,
                _ => rng.below(p.lower + 3),
            };
            targets.push(t);
        }
    }

    let pct = |rng: &mut Rng, p: usize| p > 0 && rng.below(100) < p;

    for _ in 0..len {
        spec.dontcare = false;
        let alive: Vec<Inst> = (0..=spec.clones_alive.len())
            .filter(|i| spec.inst_alive(*i))
            .collect();

        // lifecycle operations
        if pct(rng, prof.pct_lifecycle) {
            let mut choices: Vec<Op> = vec![];
            for &i in &alive {
                if spec.clones_alive.len() < prof.max_clones {
                    choices.push(Op::Clone { from: i });
                    choices.push(Op::Clone { from: i });
                }
                choices.push(Op::MakeRef(i));
                choices.push(Op::MakeRefClone(i));
                if i > 0 {
                    choices.push(Op::DropClone(i));
                    choices.push(Op::DropClone(i));
                    if rng.chance(1, 4) {
                        choices.push(Op::VerifyClone(i));
                        choices.push(Op::NoVerifyInDropClone(i));
                    }
                }
            }
            if spec.original_alive {
                choices.push(Op::Verify);
                choices.push(Op::DropOriginal);
                choices.push(Op::NoVerifyInDrop);
                if cfg.std {
                    choices.push(Op::Report);
                    choices.push(Op::DropOriginalOnThread);
                }
            }
            if !choices.is_empty() {
                let op = rng.pick(&choices).clone();
                let _ = spec.life(&op);
                ops.push(op);
                continue;
            }
        }
        if alive.is_empty() {
            break;
        }
        if pct(rng, prof.pct_clone_op) {
            if spec.clones_alive.len() < prof.max_clones && rng.chance(2, 3) {
                let op = Op::Clone {
                    from: *rng.pick(&alive),
                };
                let _ = spec.life(&op);
                ops.push(op);
                continue;
            }
            let clones: Vec<Inst> = alive.iter().copied().filter(|i| *i > 0).collect();
            if !clones.is_empty() {
                let op = Op::DropClone(*rng.pick(&clones));
                let _ = spec.life(&op);
                ops.push(op);
                continue;
            }
        }

        // a call
        let inst = *rng.pick(&alive);
        let on_thread = cfg.has_lock && pct(rng, prof.pct_thread);
        let (method, args): (MethodId, Vec<u8>);

        let ordered_methods: Vec<MethodId> = spec
            .methods
            .iter()
            .filter(|(_, (o, _))| *o)
            .map(|(m, _)| *m)
            .collect();

        if (mentioned.is_empty() || pct(rng, prof.pct_unmentioned_call)) && !unmentioned.is_empty() {
            method = *rng.pick(&unmentioned);
            args = method.args_from_code(rng.below(method.domain_size()));
        } else if mentioned.is_empty() {
            break;
        } else if prof.boundary_steer {
            // pick a pattern that is still below its target, steer a call to it
            let below: Vec<usize> = (0..spec.pats.len())
                .filter(|&pi| spec.pats[pi].count < targets[pi])
                .collect();
            let mut chosen = None;
            let mut tries = below.clone();
            rng.shuffle(&mut tries);
            for pi in tries {
                let p = &spec.pats[pi];
                if p.ordered {
                    // only if it owns the next slot
                    if p.slot.0 <= spec.g && spec.g < p.slot.1 && p.mask != 0 {
                        let codes: Vec<usize> = (0..p.method.domain_size())
                            .filter(|c| p.mask & (1 << c) != 0)
                            .collect();
                        chosen = Some((p.method, p.method.args_from_code(*rng.pick(&codes))));
                        break;
                    }
                } else if let Some(a) = args_selecting(&spec, pi) {
                    chosen = Some((p.method, a));
                    break;
                }
            }
            match chosen {
                Some((m, a)) => {
                    method = m;
                    args = a;
                }
                None => break,
            }
        } else if !ordered_methods.is_empty() && rng.chance(ordered_methods.len(), mentioned.len()) {
            // an ordered call: follow the expected sequence or deviate
            let next = spec
                .pats
                .iter()
                .find(|p| p.ordered && p.slot.0 <= spec.g && spec.g < p.slot.1);
            match next {
                Some(p) if pct(rng, prof.pct_follow_order) => {
                    method = p.method;
                    let codes: Vec<usize> = (0..p.method.domain_size())
                        .filter(|c| p.mask & (1 << c) != 0)
                        .collect();
                    args = if codes.is_empty() || rng.chance(1, 12) {
                        method.args_from_code(rng.below(method.domain_size()))
                    } else {
                        method.args_from_code(*rng.pick(&codes))
                    };
                }
                _ => {
                    method = *rng.pick(&ordered_methods);
                    args = method.args_from_code(rng.below(method.domain_size()));
                }
            }
        } else {
            let unordered: Vec<MethodId> = spec
                .methods
                .iter()
                .filter(|(_, (o, _))| !*o)
                .map(|(m, _)| *m)
                .collect();
            if unordered.is_empty() {
                method = *rng.pick(&mentioned);
                args = method.args_from_code(rng.below(method.domain_size()));
            } else {
                let m = *rng.pick(&unordered);
                let list = spec.methods[&m].1.clone();
                if pct(rng, prof.pct_steered) {
                    let target = *rng.pick(&list);
                    match args_selecting(&spec, target) {
                        Some(a) => {
                            method = m;
                            args = a;
                        }
                        None => {
                            method = m;
                            args = m.args_from_code(rng.below(m.domain_size()));
                        }
                    }
                } else {
                    method = m;
                    args = m.args_from_code(rng.below(m.domain_size()));
                }
            }
        }

        let inject = if pct(rng, prof.pct_inject) {
            Some(match rng.below(4) {
                0 => {
                    let uids: Vec<usize> = spec
                        .pats
                        .iter()
                        .filter(|p| p.method == method)
                        .map(|p| p.uid)
                        .collect();
                    if uids.is_empty() {
                        Inject::Answer
                    } else {
                        Inject::Matcher(*rng.pick(&uids))
                    }
                }
                1 => Inject::Answer,
                2 => Inject::Real,
                _ => Inject::DefaultBody,
            })
        } else {
            None
        };

        // step the model (workload shaping only)
        let mut inj = inject;
        let mut ev = vec![];
        if prof.avoid_errors {
            let mut probe = spec.clone();
            let out = probe.call(method, &args, inst == 0, &mut inj, &mut ev);
            if matches!(out, crate::spec::Outcome::MockPanic { .. }) || probe.dontcare {
                if !rng.chance(1, 25) {
                    continue;
                }
            }
            inj = inject;
            ev.clear();
        }
        let _ = spec.call(method, &args, inst == 0, &mut inj, &mut ev);
        ops.push(Op::Call {
            inst,
            method,
            args,
            on_thread,
            inject,
        });
    }
    ops
}

pub fn gen_case(rng: &mut Rng, prof: &Profile, cfg: BuildCfg) -> Case {
    let partial = rng.below(100) < prof.pct_partial;
    let clauses = gen_clauses(rng, prof, cfg);
    let history = gen_history(rng, prof, partial, &clauses, cfg);
    Case {
        partial,
        clauses,
        history,
    }
}

/// Arrange already ordered leaves into a random tuple tree (used by the metamorphic runs)
pub fn gen_rearrange(rng: &mut Rng, leaves: Vec<ClauseTree>) -> ClauseTree {
    fix_wide(arrange(rng, leaves, true, 0))
}

// ------------------------------------------------------------------------------------------------
// C09: exhaustive enumeration of lifecycle event sequences up to a length

fn lifecycle_clauses() -> ClauseTree {
    // a1 must be matched exactly once, b0 (required method behind the provided b1) at least once:
    // the verdict depends on the history, so met and unmet expectations both occur
    ClauseTree::Tuple(vec![
        ClauseTree::Single(PatternSpec {
            uid: 0,
            method: MethodId::A1,
            kind: PatKind::SomeCall,
            mask: 0b111,
            matcher: MatcherKind::Mask,
            segs: vec![Seg {
                resp: Resp::Ret,
                quant: Quant::N(1),
            }],
        }),
        ClauseTree::Single(PatternSpec {
            uid: 1,
            method: MethodId::B0,
            kind: PatKind::EachCall,
            mask: 0b111,
            matcher: MatcherKind::Mask,
            segs: vec![Seg {
                resp: Resp::Ret,
                quant: Quant::None,
            }],
        }),
    ])
}

fn lifecycle_choices(spec: &Spec, cfg: BuildCfg, max_clones: usize) -> Vec<Op> {
    let mut out = vec![];
    let alive: Vec<Inst> = (0..=spec.clones_alive.len())
        .filter(|i| spec.inst_alive(*i))
        .collect();
    for &i in &alive {
        if spec.clones_alive.len() < max_clones {
            out.push(Op::Clone { from: i });
        }
        out.push(Op::Call {
            inst: i,
            method: MethodId::A1,
            args: vec![0],
            on_thread: false,
            inject: None,
        });
        // a provided method: creates the internal delegation helper (a clone) of that instance
        out.push(Op::Call {
            inst: i,
            method: MethodId::B1,
            args: vec![1],
            on_thread: false,
            inject: None,
        });
        // a call no clause mentions: a mock-induced panic (caught), i.e. a recorded error
        out.push(Op::Call {
            inst: i,
            method: MethodId::A3,
            args: vec![2],
            on_thread: false,
            inject: None,
        });
        out.push(Op::MakeRef(i));
        if cfg.has_lock {
            out.push(Op::MakeRefClone(i));
        }
        if i > 0 {
            out.push(Op::DropClone(i));
            out.push(Op::VerifyClone(i));
            out.push(Op::NoVerifyInDropClone(i));
        }
    }
    if spec.original_alive {
        out.push(Op::Verify);
        out.push(Op::DropOriginal);
        out.push(Op::NoVerifyInDrop);
        if cfg.std {
            out.push(Op::Report);
            out.push(Op::DropOriginalOnThread);
        }
    }
    out
}

/// Calls `f` with every lifecycle sequence of length 1..=max_len (shard `shard` of `n_shards`, split on the
/// first two operations). Returns the number of sequences produced.
pub fn enum_lifecycle(
    max_len: usize,
    shard: usize,
    n_shards: usize,
    cfg: BuildCfg,
    f: &mut dyn FnMut(Case),
) -> u64 {
    let clauses = lifecycle_clauses();
    let spec0 = Spec::build(false, &clauses, cfg, Variant::True).expect("lifecycle clauses build");
    let mut count = 0u64;
    fn rec(
        spec: &Spec,
        hist: &mut Vec<Op>,
        max_len: usize,
        cfg: BuildCfg,
        clauses: &ClauseTree,
        shard: usize,
        n_shards: usize,
        prefix_code: usize,
        count: &mut u64,
        f: &mut dyn FnMut(Case),
    ) {
        if !hist.is_empty() && (hist.len() >= 2 || max_len == 1 || true) {
            // every prefix is itself a sequence; shard on the code of the first two choices
            if prefix_code % n_shards == shard || hist.len() < 2 && shard == 0 {
                if hist.len() >= 2 || shard == 0 {
                    *count += 1;
                    f(Case {
                        partial: false,
                        clauses: clauses.clone(),
                        history: hist.clone(),
                    });
                }
            }
        }
        if hist.len() == max_len {
            return;
        }
        let choices = lifecycle_choices(spec, cfg, 2);
        for (ci, op) in choices.into_iter().enumerate() {
            let code = if hist.len() < 2 {
                prefix_code * 31 + ci + 1
            } else {
                prefix_code
            };
            // prune subtrees of other shards as soon as the code is fixed
            if hist.len() == 1 && code % n_shards != shard {
                continue;
            }
            let mut s2 = spec.clone();
            match &op {
                Op::Call {
                    inst, method, args, ..
                } => {
                    let mut inj = None;
                    let mut ev = vec![];
                    let _ = s2.call(*method, args, *inst == 0, &mut inj, &mut ev);
                }
                other => {
                    if s2.life(other).is_none() {
                        continue;
                    }
                }
            }
            hist.push(op);
            rec(&s2, hist, max_len, cfg, clauses, shard, n_shards, code, count, f);
            hist.pop();
        }
    }
    let mut hist = vec![];
    rec(
        &spec0, &mut hist, max_len, cfg, &clauses, shard, n_shards, 0, &mut count, f,
    );
    count
}

// ------------------------------------------------------------------------------------------------
// C04: every accepted prefix of the expected ordered sequence extended by every possible next call

pub fn c04_prefix_cases(rng: &mut Rng, cfg: BuildCfg, cap: usize, f: &mut dyn FnMut(Case)) -> u64 {
    let mut prof = Profile::for_property("C04");
    prof.pct_build_error = 0;
    prof.pct_nofunc = 0;
    prof.pct_ordered = 85;
    prof.n_methods = (2, 3);
    let partial = rng.chance(1, 4);
    let clauses = gen_clauses(rng, &prof, cfg);
    let Ok(spec) = Spec::build(partial, &clauses, cfg, Variant::True) else {
        return 0;
    };
    // the expected sequence: for each slot the owning pattern's method and one accepted argument tuple
    let total_slots: usize = spec.pats.iter().filter(|p| p.ordered).map(|p| p.slot.1).max().unwrap_or(0);
    let mut seq: Vec<(MethodId, Vec<u8>)> = vec![];
    for slot in 0..total_slots.min(10) {
        let Some(p) = spec.pats.iter().find(|p| p.ordered && p.slot.0 <= slot && slot < p.slot.1) else {
            break;
        };
        let codes: Vec<usize> = (0..p.method.domain_size()).filter(|c| p.mask & (1 << c) != 0).collect();
        if codes.is_empty() {
            break;
        }
        seq.push((p.method, p.method.args_from_code(*rng.pick(&codes))));
    }
    let mut methods: Vec<MethodId> = spec.methods.keys().copied().collect();
    // plus one method no clause mentions
    if let Some(m) = prof.method_pool.iter().find(|m| !methods.contains(m)) {
        methods.push(*m);
    }
    let mut n = 0u64;
    for k in 0..=seq.len() {
        for m in &methods {
            for code in 0..m.domain_size() {
                if n as usize >= cap {
                    return n;
                }
                let mut history: Vec<Op> = seq[..k]
                    .iter()
                    .map(|(m, a)| Op::Call {
                        inst: 0,
                        method: *m,
                        args: a.clone(),
                        on_thread: false,
                        inject: None,
                    })
                    .collect();
                history.push(Op::Call {
                    inst: 0,
                    method: *m,
                    args: m.args_from_code(code),
                    on_thread: false,
                    inject: None,
                });
                // and the rest of the expected sequence afterwards: it must fail or continue as Spec-M says
                for (m2, a2) in seq.iter().skip(k).take(2) {
                    history.push(Op::Call {
                        inst: 0,
                        method: *m2,
                        args: a2.clone(),
                        on_thread: false,
                        inject: None,
                    });
                }
                n += 1;
                f(Case {
                    partial,
                    clauses: clauses.clone(),
                    history,
                });
            }
        }
    }
    n
}
