//! Accumulator for what a sched worker observed.
use std::collections::{BTreeMap, BTreeSet, HashSet};

#[derive(Default)]
pub struct Acc {
    pub executions: u64,
    pub cases: u64,
    pub schedules: HashSet<u64>,
    pub sites: BTreeSet<String>,
    pub exhaustive_cases: u64,
    pub exhaustive_schedules: u64,
    pub violations: u64,
    pub inconclusive: Vec<String>,
    pub stats: BTreeMap<String, u64>,
    pub samples: Vec<String>,
    pub case_hashes: HashSet<u64>,
}

impl Acc {
    pub fn bump(&mut self, k: &str) {
        *self.stats.entry(k.to_string()).or_insert(0) += 1;
    }
    pub fn add(&mut self, k: &str, n: u64) {
        *self.stats.entry(k.to_string()).or_insert(0) += n;
    }
}
