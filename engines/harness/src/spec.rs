//! Spec-M: the small executable sequential specification the monitors check against (DESIGN.md §2).
//!
//! It shares no code with unimock. It is an interpreter over the case description: per-pattern counters,
//! one global ordered counter, a list of recorded errors and a lifecycle automaton.
//!
//! `Variant` selects deliberately *wrong* versions of the specification. They are used to measure whether the
//! workload could tell the real code from a near miss (DESIGN.md §4.7), never to judge the code.

use std::collections::BTreeMap;

use crate::case::*;
use crate::universe::{ans_value, default_value, real_value, ret_value, Event};

#[derive(Clone, Copy, Debug, PartialEq, Eq)]
pub struct BuildCfg {
    /// unimock built with the `std` feature
    pub std: bool,
    /// a Mutex implementation is available (std or spin-lock)
    pub has_lock: bool,
}

#[derive(Clone, Copy, Debug, PartialEq, Eq, Hash, PartialOrd, Ord)]
pub enum Variant {
    /// the specification proper
    True,
    LastMatch,
    SkipExhausted,
    CountRejected,
    SegStrictlyBelow,
    SegNoAdvance,
    SingleUseRepeats,
    ImplicitOnceLost,
    NoPlusOne,
    ExactAsAtLeast,
    AtLeastStrict,
    NoNeverCalled,
    FirstLineOnly,
    OrderedIndexOnSuccess,
    SlotEndInclusive,
    OrderedPerMethod,
    OrderedIgnoresInputs,
    PartialBeforeDefault,
    UnmatchedPartialPanics,
    StrictUnmentionedUnmocks,
    UnmatchedUsesDefaultBody,
    ErrorsNotForwarded,
    FirstErrorOnly,
    ExplicitPanicNotRecorded,
    CloneVerifies,
    VerifyTwice,
    LiveCloneIgnored,
    ThreadIgnored,
    TupleReversed,
    MixedModeTolerated,
    EmptyStubTolerated,
}

pub const ALL_VARIANTS: &[Variant] = &[
    Variant::LastMatch,
    Variant::SkipExhausted,
    Variant::CountRejected,
    Variant::SegStrictlyBelow,
    Variant::SegNoAdvance,
    Variant::SingleUseRepeats,
    Variant::ImplicitOnceLost,
    Variant::NoPlusOne,
    Variant::ExactAsAtLeast,
    Variant::AtLeastStrict,
    Variant::NoNeverCalled,
    Variant::FirstLineOnly,
    Variant::OrderedIndexOnSuccess,
    Variant::SlotEndInclusive,
    Variant::OrderedPerMethod,
    Variant::OrderedIgnoresInputs,
    Variant::PartialBeforeDefault,
    Variant::UnmatchedPartialPanics,
    Variant::StrictUnmentionedUnmocks,
    Variant::UnmatchedUsesDefaultBody,
    Variant::ErrorsNotForwarded,
    Variant::FirstErrorOnly,
    Variant::ExplicitPanicNotRecorded,
    Variant::CloneVerifies,
    Variant::VerifyTwice,
    Variant::LiveCloneIgnored,
    Variant::ThreadIgnored,
    Variant::TupleReversed,
    Variant::MixedModeTolerated,
    Variant::EmptyStubTolerated,
];

#[derive(Clone, Copy, Debug, PartialEq, Eq, Hash, PartialOrd, Ord)]
pub enum PanicKind {
    NoMockImpl,
    NoMatch,
    NoOutput,
    WrongOrder,
    OutOfRange,
    InputsNotMatched,
    CannotReturnTwice,
    CannotUnmock,
    NoDefaultImpl,
    Explicit,
    NoMatcherFn,
}

/// Classify a mock-panic message. None if the text is not one of unimock's call errors.
pub fn classify_panic(msg: &str) -> Option<PanicKind> {
    let table: &[(&str, PanicKind)] = &[
        ("No mock implementation found", PanicKind::NoMockImpl),
        ("No matching call patterns", PanicKind::NoMatch),
        ("No output available", PanicKind::NoOutput),
        ("matched in wrong order", PanicKind::WrongOrder),
        ("out of range", PanicKind::OutOfRange),
        ("inputs didn't match", PanicKind::InputsNotMatched),
        ("Cannot return value more than once", PanicKind::CannotReturnTwice),
        ("cannot be unmocked", PanicKind::CannotUnmock),
        (
            "has not been set up with default implementation delegation",
            PanicKind::NoDefaultImpl,
        ),
        ("Explicit panic", PanicKind::Explicit),
        ("No function supplied for matching inputs", PanicKind::NoMatcherFn),
    ];
    table
        .iter()
        .find(|(needle, _)| msg.contains(needle))
        .map(|(_, k)| *k)
}

#[derive(Clone, Debug, PartialEq, Eq)]
pub enum Outcome {
    Value(u32),
    MockPanic {
        kind: PanicKind,
        /// the method the message must name
        method: MethodId,
        /// the pattern the message names, if any
        pat: Option<usize>,
    },
    UserPanic(&'static str),
}

#[derive(Clone, Debug, PartialEq, Eq)]
pub enum BuildErr {
    MixedMode(MethodId),
    EmptyStub,
    NoMutexApi,
}

#[derive(Clone, Debug)]
struct SegRt {
    start: usize,
    resp: Resp,
    single_use: bool,
    used: bool,
}

#[derive(Clone, Debug)]
pub struct PatRt {
    pub uid: usize,
    pub method: MethodId,
    pub mask: u16,
    pub matcher: MatcherKind,
    segs: Vec<SegRt>,
    /// lower bound of the expectation
    pub lower: usize,
    pub exact: bool,
    pub count: usize,
    pub slot: (usize, usize),
    pub ordered: bool,
    /// index within the method's pattern list
    pub index: usize,
    /// sum of all quantifier counts
    pub total: usize,
}

impl PatRt {
    fn accepts(&self, args: &[u8]) -> bool {
        self.mask & (1 << self.method.arg_code(args)) != 0
    }
}

/// Identifies one line of a failed verification
#[derive(Clone, Debug, PartialEq, Eq, Hash, PartialOrd, Ord)]
pub enum LineId {
    Pattern(usize),
    NeverCalled(MethodId),
}

#[derive(Clone, Debug, PartialEq, Eq)]
pub enum Verdict {
    Ok,
    /// recorded mock errors are forwarded (their number)
    Errors(usize),
    Lines(Vec<LineId>),
}

#[derive(Clone, Debug, PartialEq, Eq)]
pub enum LifeOutcome {
    Silent,
    LiveClones,
    WrongThread,
    CloneVerify,
    CloneNoVerify,
    Failed(Verdict),
    /// report(): true = SUCCESS
    Exit(bool),
    /// report() that failed: FAILURE with this verdict
    ExitFailure(Verdict),
}

#[derive(Clone, Debug)]
pub struct Spec {
    pub variant: Variant,
    pub cfg: BuildCfg,
    pub partial: bool,
    pub pats: Vec<PatRt>,
    pub methods: BTreeMap<MethodId, (bool, Vec<usize>)>,
    pub g: usize,
    pub n_errors: usize,
    /// a call reached a point where the property assigns no response (overflow of an exact unordered chain)
    pub dontcare: bool,
    // lifecycle
    pub original_alive: bool,
    pub original_verify_in_drop: bool,
    pub original_panicked_nostd: bool,
    pub clones_alive: Vec<bool>,
    per_method_g: BTreeMap<MethodId, usize>,
}

fn leaves_in_order(tree: &ClauseTree, reversed: bool) -> Vec<&ClauseTree> {
    let mut out = vec![];
    fn rec<'a>(t: &'a ClauseTree, reversed: bool, out: &mut Vec<&'a ClauseTree>) {
        match t {
            ClauseTree::Tuple(items) => {
                if reversed && items.len() >= 7 {
                    // a transposition in one of the wide tuple impls
                    let mut idx: Vec<usize> = (0..items.len()).collect();
                    idx.swap(5, 6);
                    idx.into_iter().for_each(|i| rec(&items[i], reversed, out));
                } else {
                    items.iter().for_each(|i| rec(i, reversed, out))
                }
            }
            other => out.push(other),
        }
    }
    rec(tree, reversed, &mut out);
    out
}

impl Spec {
    pub fn build(
        partial: bool,
        tree: &ClauseTree,
        cfg: BuildCfg,
        variant: Variant,
    ) -> Result<Spec, BuildErr> {
        let mut spec = Spec {
            variant,
            cfg,
            partial,
            pats: vec![],
            methods: BTreeMap::new(),
            g: 0,
            n_errors: 0,
            dontcare: false,
            original_alive: true,
            original_verify_in_drop: true,
            original_panicked_nostd: false,
            clones_alive: vec![],
            per_method_g: BTreeMap::new(),
        };
        let mut cur_slot = 0usize;
        for leaf in leaves_in_order(tree, variant == Variant::TupleReversed) {
            let pats: Vec<&PatternSpec> = match leaf {
                ClauseTree::Unit => vec![],
                ClauseTree::Single(p) => vec![p],
                ClauseTree::Stub(_, ps) => {
                    if ps.is_empty() && variant != Variant::EmptyStubTolerated {
                        return Err(BuildErr::EmptyStub);
                    }
                    ps.iter().collect()
                }
                ClauseTree::Tuple(_) => unreachable!(),
            };
            for p in pats {
                spec.push_pattern(p, &mut cur_slot)?;
            }
        }
        Ok(spec)
    }

    fn push_pattern(&mut self, p: &PatternSpec, cur_slot: &mut usize) -> Result<(), BuildErr> {
        let ordered = p.kind.ordered();
        let v = self.variant;

        // chain arithmetic
        let mut segs = vec![];
        let mut running = 0usize;
        let mut exact = false;
        let mut plus_one = false;
        let mut any_quant = false;
        let qrv_single = p.kind.starts_single()
            && !p.segs.is_empty()
            && p.segs[0].resp == Resp::Ret
            && matches!(p.segs[0].quant, Quant::None | Quant::Once);

        for (i, seg) in p.segs.iter().enumerate() {
            if i > 0 {
                // `then()`
                plus_one = true;
                exact = false;
            }
            let single_use = i == 0 && qrv_single;
            if single_use && !self.cfg.has_lock {
                return Err(BuildErr::NoMutexApi);
            }
            segs.push(SegRt {
                start: running,
                resp: seg.resp,
                single_use,
                used: false,
            });
            match seg.quant {
                Quant::None => {}
                Quant::Once => {
                    if v != Variant::SegNoAdvance {
                        running += 1;
                    }
                    exact = true;
                    plus_one = false;
                    any_quant = true;
                }
                Quant::N(n) => {
                    if v != Variant::SegNoAdvance {
                        running += n;
                    }
                    exact = true;
                    plus_one = false;
                    any_quant = true;
                }
                Quant::AtLeast(n) => {
                    running += n;
                    exact = false;
                    plus_one = false;
                    any_quant = true;
                }
            }
        }
        let _ = any_quant;
        // the sum of declared counts (independent of the SegNoAdvance variant's start indexes)
        let declared: usize = p.segs.iter().map(|s| s.quant.count()).sum();
        let mut total = declared;
        let last_unquantified = p.segs.last().map(|s| s.quant == Quant::None).unwrap_or(true);

        if last_unquantified && !p.segs.is_empty() {
            if p.segs.len() == 1 && qrv_single {
                // `returns(v)` left unquantified: implicit `once()`
                if v != Variant::ImplicitOnceLost {
                    total += 1;
                    exact = true;
                }
            } else if ordered {
                // implicit exact +1 for unquantified ordered clauses
                if v != Variant::ImplicitOnceLost {
                    total += 1;
                    exact = true;
                    plus_one = false;
                }
            }
        }
        let lower = if plus_one && !exact && v != Variant::NoPlusOne {
            total + 1
        } else {
            total
        };

        let mut slot = (0, 0);
        if ordered {
            slot = (*cur_slot, *cur_slot + total);
            *cur_slot += total;
        }

        let index = match self.methods.get(&p.method) {
            Some((mode_ordered, list)) => {
                if *mode_ordered != ordered && v != Variant::MixedModeTolerated {
                    return Err(BuildErr::MixedMode(p.method));
                }
                list.len()
            }
            None => 0,
        };
        let pat_index = self.pats.len();
        self.pats.push(PatRt {
            uid: p.uid,
            method: p.method,
            mask: p.mask,
            matcher: p.matcher,
            segs,
            lower,
            exact,
            count: 0,
            slot,
            ordered,
            index,
            total,
        });
        self.methods
            .entry(p.method)
            .or_insert_with(|| (ordered, vec![]))
            .1
            .push(pat_index);
        Ok(())
    }

    fn mock_panic(
        &mut self,
        kind: PanicKind,
        method: MethodId,
        pat: Option<usize>,
        via_original: bool,
    ) -> Outcome {
        if !(self.variant == Variant::ExplicitPanicNotRecorded && kind == PanicKind::Explicit) {
            self.n_errors += 1;
        }
        if via_original {
            self.original_panicked_nostd = true;
        }
        Outcome::MockPanic { kind, method, pat }
    }

    /// Evaluate a call. `inject` is consumed if the fault fires. Events are appended in the order the real
    /// callbacks would log them.
    pub fn call(
        &mut self,
        method: MethodId,
        args: &[u8],
        via_original: bool,
        inject: &mut Option<Inject>,
        events: &mut Vec<Event>,
    ) -> Outcome {
        let v = self.variant;
        let (ordered, list) = match self.methods.get(&method) {
            None => {
                let default_first = v != Variant::PartialBeforeDefault;
                let wants_unmock = method.partial_by_default()
                    || self.partial
                    || v == Variant::StrictUnmentionedUnmocks;
                if default_first {
                    if method.has_default() {
                        return self.run_default(method, args, inject, events);
                    }
                } else if wants_unmock && method.has_real() {
                    return self.unmock(method, args, via_original, inject, events);
                } else if method.has_default() {
                    return self.run_default(method, args, inject, events);
                }
                if wants_unmock {
                    return self.unmock(method, args, via_original, inject, events);
                }
                return self.mock_panic(PanicKind::NoMockImpl, method, None, via_original);
            }
            Some((ordered, list)) => (*ordered, list.clone()),
        };

        let selected: usize;
        if !ordered {
            let mut found = None;
            let mut rejected = vec![];
            for &pi in &list {
                let pat = &self.pats[pi];
                if v == Variant::SkipExhausted && pat.exact && pat.count >= pat.total {
                    continue;
                }
                if pat.matcher == MatcherKind::NoFunc {
                    let uid = pat.uid;
                    if found.is_some() && v == Variant::LastMatch {
                        // keep going in the wrong variant
                    }
                    if found.is_none() || v == Variant::LastMatch {
                        return self.mock_panic(
                            PanicKind::NoMatcherFn,
                            method,
                            Some(uid),
                            via_original,
                        );
                    }
                }
                if *inject == Some(Inject::Matcher(pat.uid)) {
                    *inject = None;
                    return Outcome::UserPanic("matcher");
                }
                if pat.accepts(args) {
                    found = Some(pi);
                    if v != Variant::LastMatch {
                        break;
                    }
                } else {
                    rejected.push(pi);
                }
            }
            if v == Variant::CountRejected {
                for pi in rejected {
                    self.pats[pi].count += 1;
                }
            }
            match found {
                Some(pi) => selected = pi,
                None => {
                    if self.partial && v != Variant::UnmatchedPartialPanics {
                        return self.unmock(method, args, via_original, inject, events);
                    }
                    if v == Variant::UnmatchedUsesDefaultBody && method.has_default() {
                        return self.run_default(method, args, inject, events);
                    }
                    return self.mock_panic(PanicKind::NoMatch, method, None, via_original);
                }
            }
        } else {
            let i = if v == Variant::OrderedPerMethod {
                // wrong: a per-method position instead of a global one
                let e = self.per_method_g.entry(method).or_insert(0);
                let own: Vec<(usize, usize)> =
                    list.iter().map(|&pi| self.pats[pi].slot).collect();
                // the k-th slot owned by this method
                let mut slots = vec![];
                for (lo, hi) in own {
                    slots.extend(lo..hi);
                }
                let k = *e;
                *e += 1;
                self.g += 1;
                slots.get(k).copied().unwrap_or(usize::MAX)
            } else {
                let i = self.g;
                if v != Variant::OrderedIndexOnSuccess {
                    self.g += 1;
                }
                i
            };
            let owner = list.iter().copied().find(|&pi| {
                let (lo, hi) = self.pats[pi].slot;
                if v == Variant::SlotEndInclusive {
                    lo <= i && i <= hi && hi > lo
                } else {
                    lo <= i && i < hi
                }
            });
            let pi = match owner {
                Some(pi) => pi,
                None => {
                    let other = self
                        .pats
                        .iter()
                        .find(|p| p.ordered && p.slot.0 <= i && i < p.slot.1)
                        .map(|p| p.uid);
                    return match other {
                        Some(uid) => {
                            self.mock_panic(PanicKind::WrongOrder, method, Some(uid), via_original)
                        }
                        None => self.mock_panic(PanicKind::OutOfRange, method, None, via_original),
                    };
                }
            };
            let pat = &self.pats[pi];
            let uid = pat.uid;
            if pat.matcher == MatcherKind::NoFunc {
                return self.mock_panic(PanicKind::NoMatcherFn, method, Some(uid), via_original);
            }
            if *inject == Some(Inject::Matcher(uid)) {
                *inject = None;
                return Outcome::UserPanic("matcher");
            }
            if !pat.accepts(args) && v != Variant::OrderedIgnoresInputs {
                return self.mock_panic(
                    PanicKind::InputsNotMatched,
                    method,
                    Some(uid),
                    via_original,
                );
            }
            if v == Variant::OrderedIndexOnSuccess {
                self.g += 1;
            }
            selected = pi;
        }

        // selected pattern
        let k = self.pats[selected].count;
        self.pats[selected].count += 1;
        let uid = self.pats[selected].uid;

        let pat = &self.pats[selected];
        if pat.segs.is_empty() {
            return self.mock_panic(PanicKind::NoOutput, method, Some(uid), via_original);
        }
        // segment with the greatest start <= k. Among equal starts (zero-count segments) the last one:
        // "the first i with n1+..+ni >= k" skips segments that were given no repetitions.
        let mut seg_idx = 0;
        for (i, seg) in pat.segs.iter().enumerate() {
            let ok = if v == Variant::SegStrictlyBelow {
                seg.start < k || i == 0
            } else {
                seg.start <= k
            };
            if ok {
                seg_idx = i;
            }
        }
        let seg = &pat.segs[seg_idx];
        if pat.exact && !pat.ordered && k >= pat.total && !seg.single_use {
            // beyond an exact chain the property assigns no response; a *single-use* value however must
            // refuse its second request
            self.dontcare = true;
        }
        match seg.resp {
            Resp::Ret => {
                if seg.single_use && v != Variant::SingleUseRepeats {
                    if seg.used {
                        return self.mock_panic(
                            PanicKind::CannotReturnTwice,
                            method,
                            Some(uid),
                            via_original,
                        );
                    }
                    self.pats[selected].segs[seg_idx].used = true;
                }
                Outcome::Value(ret_value(uid, seg_idx))
            }
            Resp::RetDefault => Outcome::Value(0),
            Resp::Answer(_) | Resp::AnswerArc => {
                events.push(Event::Answer {
                    uid,
                    seg: seg_idx,
                    args: args.to_vec(),
                });
                if *inject == Some(Inject::Answer) {
                    *inject = None;
                    return Outcome::UserPanic("answer");
                }
                Outcome::Value(ans_value(uid, seg_idx))
            }
            Resp::Panics => self.mock_panic(PanicKind::Explicit, method, Some(uid), via_original),
            Resp::Unmock => self.unmock(method, args, via_original, inject, events),
            Resp::DefaultImpl => {
                if method.has_default() {
                    self.run_default(method, args, inject, events)
                } else {
                    self.mock_panic(PanicKind::NoDefaultImpl, method, None, via_original)
                }
            }
        }
    }

    fn unmock(
        &mut self,
        method: MethodId,
        args: &[u8],
        via_original: bool,
        inject: &mut Option<Inject>,
        events: &mut Vec<Event>,
    ) -> Outcome {
        if !method.has_real() {
            return self.mock_panic(PanicKind::CannotUnmock, method, None, via_original);
        }
        events.push(Event::Real {
            method,
            args: args.to_vec(),
        });
        if *inject == Some(Inject::Real) {
            *inject = None;
            return Outcome::UserPanic("real");
        }
        if method == MethodId::A2 && args[1] == 2 {
            match self.call(MethodId::A1, &[args[0]], via_original, inject, events) {
                Outcome::Value(v) => events.push(Event::Nested(v)),
                other => return other,
            }
        }
        Outcome::Value(real_value(method, args))
    }

    fn run_default(
        &mut self,
        method: MethodId,
        args: &[u8],
        inject: &mut Option<Inject>,
        events: &mut Vec<Event>,
    ) -> Outcome {
        events.push(Event::DefaultBody {
            method,
            args: args.to_vec(),
        });
        if *inject == Some(Inject::DefaultBody) {
            *inject = None;
            return Outcome::UserPanic("default");
        }
        if method == MethodId::B1 {
            // the body runs against the delegation helper (a clone)
            match self.call(MethodId::B0, &[args[0]], false, inject, events) {
                Outcome::Value(v) => events.push(Event::Nested(v)),
                other => return other,
            }
        }
        Outcome::Value(default_value(method, args))
    }

    // ---------------------------------------------------------------------------------------------
    // verification

    /// The verdict a verification of the original gives right now
    pub fn verdict(&self) -> Verdict {
        let v = self.variant;
        if self.n_errors > 0 && v != Variant::ErrorsNotForwarded {
            return Verdict::Errors(if v == Variant::FirstErrorOnly {
                1
            } else {
                self.n_errors
            });
        }
        let mut lines = vec![];
        for (method, (_, list)) in &self.methods {
            let mut total = 0;
            for &pi in list {
                let p = &self.pats[pi];
                total += p.count;
                let violated = if p.exact {
                    if v == Variant::ExactAsAtLeast {
                        p.count < p.lower
                    } else {
                        p.count != p.lower
                    }
                } else if v == Variant::AtLeastStrict {
                    p.count <= p.lower && p.lower > 0
                } else {
                    p.count < p.lower
                };
                if violated {
                    lines.push(LineId::Pattern(p.uid));
                }
            }
            if total == 0 && v != Variant::NoNeverCalled {
                lines.push(LineId::NeverCalled(*method));
            }
        }
        if v == Variant::FirstLineOnly {
            lines.truncate(1);
        }
        if lines.is_empty() {
            Verdict::Ok
        } else {
            lines.sort();
            Verdict::Lines(lines)
        }
    }

    fn any_clone_alive(&self) -> bool {
        self.clones_alive.iter().any(|a| *a)
    }

    /// A verification attempt of the original (drop with verify_in_drop, `verify()`, `report()`).
    fn verify_original(&mut self, on_creator_thread: bool, report: bool) -> LifeOutcome {
        let v = self.variant;
        self.original_alive = false;
        if !self.cfg.std && self.original_panicked_nostd {
            return if report {
                LifeOutcome::Exit(true)
            } else {
                LifeOutcome::Silent
            };
        }
        if self.any_clone_alive() && v != Variant::LiveCloneIgnored {
            return LifeOutcome::LiveClones;
        }
        if self.cfg.std && !on_creator_thread && v != Variant::ThreadIgnored {
            return LifeOutcome::WrongThread;
        }
        match self.verdict() {
            Verdict::Ok => {
                if report {
                    LifeOutcome::Exit(true)
                } else {
                    LifeOutcome::Silent
                }
            }
            bad => {
                if report {
                    LifeOutcome::ExitFailure(bad)
                } else {
                    LifeOutcome::Failed(bad)
                }
            }
        }
    }

    /// Lifecycle operations. Returns None if the operation is not applicable in the current state
    /// (generator bug, reported as such by the caller).
    pub fn life(&mut self, op: &Op) -> Option<LifeOutcome> {
        let v = self.variant;
        Some(match op {
            Op::Clone { from } => {
                if *from == 0 {
                    if !self.original_alive {
                        return None;
                    }
                } else if !self.clones_alive.get(*from - 1).copied().unwrap_or(false) {
                    return None;
                }
                self.clones_alive.push(true);
                LifeOutcome::Silent
            }
            Op::DropClone(k) => {
                if !self.clones_alive.get(*k - 1).copied().unwrap_or(false) {
                    return None;
                }
                self.clones_alive[*k - 1] = false;
                if v == Variant::CloneVerifies {
                    match self.verdict() {
                        Verdict::Ok => LifeOutcome::Silent,
                        bad => LifeOutcome::Failed(bad),
                    }
                } else {
                    LifeOutcome::Silent
                }
            }
            Op::Verify => {
                if !self.original_alive {
                    return None;
                }
                let out = self.verify_original(true, false);
                if v == Variant::VerifyTwice && out == LifeOutcome::Silent {
                    // wrong: the drop at the end of verify() verifies again (only visible when it fails,
                    // which it cannot after a silent first pass; modelled through DropOriginal below)
                }
                out
            }
            Op::Report => {
                if !self.original_alive {
                    return None;
                }
                self.verify_original(true, true)
            }
            Op::NoVerifyInDrop => {
                if !self.original_alive {
                    return None;
                }
                self.original_verify_in_drop = false;
                LifeOutcome::Silent
            }
            Op::DropOriginal | Op::DropOriginalOnThread => {
                if !self.original_alive {
                    return None;
                }
                if !self.original_verify_in_drop {
                    self.original_alive = false;
                    LifeOutcome::Silent
                } else {
                    self.verify_original(matches!(op, Op::DropOriginal), false)
                }
            }
            Op::VerifyClone(k) => {
                if !self.clones_alive.get(*k - 1).copied().unwrap_or(false) {
                    return None;
                }
                // verify(self) consumes the clone: it is dropped while unwinding
                self.clones_alive[*k - 1] = false;
                LifeOutcome::CloneVerify
            }
            Op::NoVerifyInDropClone(k) => {
                if !self.clones_alive.get(*k - 1).copied().unwrap_or(false) {
                    return None;
                }
                self.clones_alive[*k - 1] = false;
                LifeOutcome::CloneNoVerify
            }
            Op::MakeRef(k) | Op::MakeRefClone(k) => {
                if *k == 0 {
                    if !self.original_alive {
                        return None;
                    }
                } else if !self.clones_alive.get(*k - 1).copied().unwrap_or(false) {
                    return None;
                }
                LifeOutcome::Silent
            }
            Op::Call { .. } => return None,
        })
    }

    pub fn inst_alive(&self, inst: Inst) -> bool {
        if inst == 0 {
            self.original_alive
        } else {
            self.clones_alive.get(inst - 1).copied().unwrap_or(false)
        }
    }
}
