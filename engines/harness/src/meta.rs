//! C18: metamorphic relations between runs of the *real* code (no model involved in the verdict).
//!
//! (a) permuting clauses across methods (keeping each method's own order and the relative order of ordered
//!     clauses), (b) routing calls through clones, (c) interleaving with a second mock built from the same
//!     description, (d) swapping the generic instantiation a pattern was declared for — must not change any
//!     call's outcome nor the verification verdict.

use std::panic::{catch_unwind, AssertUnwindSafe};

use unimock::Unimock;

use crate::case::*;
use crate::check::{Discrepancy, Stats};
use crate::exec::{classify_payload, run_case, Obs, Trace};
use crate::gen::{gen_case, Profile};
use crate::prng::{mix3, Rng};
use crate::universe::*;

fn sorted_lines(obs: &Obs) -> Obs {
    match obs {
        Obs::PanicString(t) => {
            let mut lines: Vec<&str> = t.lines().collect();
            lines.sort();
            Obs::PanicString(lines.join("\n"))
        }
        other => other.clone(),
    }
}

fn call_obs(case: &Case, trace: &Trace) -> Vec<Obs> {
    case.history
        .iter()
        .zip(trace.ops.iter())
        .filter(|(op, _)| matches!(op, Op::Call { .. }))
        .map(|(_, o)| o.obs.clone())
        .collect()
}

fn compare(
    what: &str,
    base_case: &Case,
    base: (&[Obs], &Option<Obs>),
    other_case: &str,
    other: (&[Obs], &Option<Obs>),
) -> Option<Discrepancy> {
    for (i, (a, b)) in base.0.iter().zip(other.0.iter()).enumerate() {
        if a != b {
            return Some(Discrepancy {
                props: vec!["C18"],
                at: format!("{what}: call #{i}"),
                expected: format!("same outcome as in the base run: {a:?}  [base: {base_case}]"),
                observed: format!("{b:?}  [transformed: {other_case}]"),
            });
        }
    }
    if base.0.len() != other.0.len() {
        return Some(Discrepancy {
            props: vec!["C18"],
            at: format!("{what}: number of calls"),
            expected: format!("{}", base.0.len()),
            observed: format!("{}", other.0.len()),
        });
    }
    let (fa, fb) = (
        base.1.as_ref().map(sorted_lines),
        other.1.as_ref().map(sorted_lines),
    );
    if fa != fb {
        return Some(Discrepancy {
            props: vec!["C18"],
            at: format!("{what}: final verification"),
            expected: format!("same verdict as the base run: {fa:?}  [base: {base_case}]"),
            observed: format!("{fb:?}  [transformed: {other_case}]"),
        });
    }
    None
}

fn leaf_methods(leaf: &ClauseTree) -> (Vec<MethodId>, bool) {
    match leaf {
        ClauseTree::Single(p) => (vec![p.method], p.kind.ordered()),
        ClauseTree::Stub(m, _) => (vec![*m], false),
        _ => (vec![], false),
    }
}

/// A random linear extension of the constraints "same method keeps order" and "ordered clauses keep order".
fn permute_leaves(rng: &mut Rng, leaves: Vec<ClauseTree>) -> Vec<ClauseTree> {
    let n = leaves.len();
    let info: Vec<(Vec<MethodId>, bool)> = leaves.iter().map(leaf_methods).collect();
    let mut placed = vec![false; n];
    let mut out = vec![];
    for _ in 0..n {
        // candidates: unplaced leaves all of whose predecessors (earlier, conflicting) are placed
        let cands: Vec<usize> = (0..n)
            .filter(|&i| !placed[i])
            .filter(|&i| {
                (0..i).all(|j| {
                    placed[j] || {
                        let same_method = info[i].0.iter().any(|m| info[j].0.contains(m));
                        let both_ordered = info[i].1 && info[j].1;
                        !(same_method || both_ordered)
                    }
                })
            })
            .collect();
        let pick = *rng.pick(&cands);
        placed[pick] = true;
        out.push(leaves[pick].clone());
    }
    out
}

fn flat_tuple(leaves: Vec<ClauseTree>) -> ClauseTree {
    fn rec(mut leaves: Vec<ClauseTree>) -> ClauseTree {
        match leaves.len() {
            0 => ClauseTree::Unit,
            1 => leaves.pop().unwrap(),
            n if n <= 16 => ClauseTree::Tuple(leaves),
            _ => {
                let rest = leaves.split_off(15);
                leaves.push(rec(rest));
                ClauseTree::Tuple(leaves)
            }
        }
    }
    rec(leaves)
}

fn swap_generic(case: &Case) -> Option<Case> {
    fn swap(m: MethodId) -> MethodId {
        match m {
            MethodId::G8 => MethodId::G16,
            MethodId::G16 => MethodId::G8,
            o => o,
        }
    }
    let mut any = false;
    let mut leaves = vec![];
    for leaf in case.clauses.leaves() {
        match leaf {
            ClauseTree::Single(p) => {
                let mut p = p.clone();
                if matches!(p.method, MethodId::G8 | MethodId::G16) {
                    any = true;
                    p.method = swap(p.method);
                    if p.method == MethodId::G16 && !w16_supported(&p) {
                        return None;
                    }
                }
                leaves.push(ClauseTree::Single(p));
            }
            ClauseTree::Stub(m, ps) => {
                if matches!(m, MethodId::G8 | MethodId::G16) {
                    return None;
                }
                leaves.push(ClauseTree::Stub(*m, ps.clone()));
            }
            other => leaves.push(other.clone()),
        }
    }
    let history = case
        .history
        .iter()
        .map(|op| match op {
            Op::Call {
                inst,
                method,
                args,
                on_thread,
                inject,
            } => {
                if matches!(method, MethodId::G8 | MethodId::G16) {
                    any = true;
                }
                Op::Call {
                    inst: *inst,
                    method: swap(*method),
                    args: args.clone(),
                    on_thread: *on_thread,
                    inject: *inject,
                }
            }
            o => o.clone(),
        })
        .collect();
    if !any {
        return None;
    }
    Some(Case {
        partial: case.partial,
        clauses: flat_tuple(leaves),
        history,
    })
}

fn guarded<R>(f: impl FnOnce() -> R) -> Result<R, Obs> {
    catch_unwind(AssertUnwindSafe(f)).map_err(classify_payload)
}

/// (c): the base history on one mock, interleaved with random calls on a second mock built from the same clauses
fn run_two_mocks(case: &Case, rng: &mut Rng) -> Option<(Vec<Obs>, Option<Obs>, u64)> {
    ctx_reset();
    let make = || {
        guarded(|| {
            let clause = build_clause(&case.clauses);
            if case.partial {
                Unimock::new_partial(clause)
            } else {
                Unimock::new(clause)
            }
        })
    };
    let m1 = make().ok()?;
    let m2 = make().ok()?;
    let mut obs = vec![];
    let mut foreign_calls = 0;
    for op in &case.history {
        for _ in 0..rng.below(3) {
            let method = *rng.pick(&ALL_METHODS);
            let args = method.args_from_code(rng.below(method.domain_size()));
            let _ = guarded(|| call_method(&m2, method, &args));
            foreign_calls += 1;
        }
        if let Op::Call {
            method,
            args,
            inject,
            ..
        } = op
        {
            arm_inject(*inject);
            let r = guarded(|| call_method(&m1, *method, args));
            arm_inject(None);
            obs.push(match r {
                Ok(v) => Obs::Value(v),
                Err(o) => o,
            });
        }
    }
    let _ = guarded(move || drop(m2));
    let fin = match guarded(move || drop(m1)) {
        Ok(()) => Obs::Silent,
        Err(o) => o,
    };
    Some((obs, Some(fin), foreign_calls))
}

pub fn run_meta_case(seed: u64, worker: u64, index: u64) -> (Case, Option<Discrepancy>, Stats) {
    let mut stats = Stats::default();
    let mut rng = Rng::new(mix3(seed, worker, index));
    let mut prof = Profile::for_property("C18");
    // one case in ten has many clauses (usually more than 20 terminal clauses over 4-5 methods): whatever the
    // assembler does to group them per method, each method's own pattern order is what the user wrote
    if rng.chance(1, 10) {
        prof.n_methods = (4, 5);
        prof.pats_per_method = (4, 7);
        stats.bump("meta_many_clauses");
    }
    let cfg = crate::build_cfg();
    let base = gen_case(&mut rng, &prof, cfg);
    let base_trace = run_case(&base);
    if base_trace.build.is_err() {
        stats.bump("meta_build_failed");
        return (base, None, stats);
    }
    let base_calls = call_obs(&base, &base_trace);
    let base_final = base_trace.final_original.clone();
    stats.add("meta_base_calls", base_calls.len() as u64);

    // (a) permutation
    {
        let leaves: Vec<ClauseTree> = base.clauses.leaves().into_iter().cloned().collect();
        let permuted = permute_leaves(&mut rng, leaves.clone());
        if permuted != leaves {
            stats.bump("meta_perm_changed_order");
        }
        let nested = crate::gen::gen_rearrange(&mut rng, permuted);
        let c2 = Case {
            partial: base.partial,
            clauses: nested,
            history: base.history.clone(),
        };
        let t2 = run_case(&c2);
        stats.bump("meta_perm");
        if t2.build.is_err() {
            return (
                base.clone(),
                Some(Discrepancy {
                    props: vec!["C18"],
                    at: "permutation: construction".into(),
                    expected: "constructs like the base".into(),
                    observed: format!("{:?} [transformed: {c2}]", t2.build),
                }),
                stats,
            );
        }
        let calls2 = call_obs(&c2, &t2);
        if let Some(d) = compare(
            "clause permutation",
            &base,
            (&base_calls, &base_final),
            &format!("{c2}"),
            (&calls2, &t2.final_original),
        ) {
            return (base, Some(d), stats);
        }
    }

    // (b) routing through clones (and helper threads)
    {
        let k = rng.range(1, 3);
        let mut hist: Vec<Op> = (0..k).map(|_| Op::Clone { from: 0 }).collect();
        for op in &base.history {
            if let Op::Call {
                method,
                args,
                inject,
                ..
            } = op
            {
                hist.push(Op::Call {
                    inst: rng.below(k + 1),
                    method: *method,
                    args: args.clone(),
                    on_thread: cfg.has_lock && rng.chance(1, 5),
                    inject: *inject,
                });
            }
        }
        // some instances additionally keep a derived mock in their own value chain (`make_ref(self.clone())`, what an
        // answer function returning `&dyn Trait` does): it is released together with its owner, so it cannot
        // influence any outcome nor the verdict, whichever instance owns it
        if cfg.has_lock && rng.chance(1, 3) {
            for _ in 0..rng.range(1, 2) {
                let at = rng.range(k, hist.len());
                hist.insert(at, Op::MakeRefClone(rng.below(k + 1)));
                stats.bump("meta_route_parked_clone");
            }
        }
        // in half of the runs the clones are dropped and the original is finished explicitly through `verify()`:
        // the verdict must be the one the base run got from its drop
        let explicit_verify = rng.chance(1, 2);
        if explicit_verify {
            for i in 1..=k {
                hist.push(Op::DropClone(i));
            }
            hist.push(Op::Verify);
            stats.bump("meta_route_explicit_verify");
        }
        let c2 = Case {
            partial: base.partial,
            clauses: base.clauses.clone(),
            history: hist,
        };
        let t2 = run_case(&c2);
        stats.bump("meta_route");
        let calls2 = call_obs(&c2, &t2);
        let final2 = if explicit_verify {
            t2.ops.last().map(|o| o.obs.clone())
        } else {
            t2.final_original.clone()
        };
        if let Some(d) = compare(
            "routing over clones",
            &base,
            (&base_calls, &base_final),
            &format!("{c2}"),
            (&calls2, &final2),
        ) {
            return (base, Some(d), stats);
        }
        if t2.final_clone_drops.iter().any(|o| *o != Obs::Silent) {
            return (
                base,
                Some(Discrepancy {
                    props: vec!["C18", "C09"],
                    at: "routing over clones: clone drops".into(),
                    expected: "silent".into(),
                    observed: format!("{:?}", t2.final_clone_drops),
                }),
                stats,
            );
        }
    }

    // (c) a second, independent mock from the same description
    if let Some((calls2, fin2, foreign)) = run_two_mocks(&base, &mut rng) {
        stats.bump("meta_two_mocks");
        stats.add("meta_foreign_calls", foreign);
        if let Some(d) = compare(
            "second independent mock",
            &base,
            (&base_calls, &base_final),
            "same clauses, foreign calls on the other mock interleaved",
            (&calls2, &fin2),
        ) {
            return (base, Some(d), stats);
        }
    }

    // (d) generic instantiations
    if let Some(c2) = swap_generic(&base) {
        let t2 = run_case(&c2);
        stats.bump("meta_generic_swap");
        if t2.build.is_ok() {
            let calls2 = call_obs(&c2, &t2);
            if let Some(d) = compare(
                "generic instantiation swap",
                &base,
                (&base_calls, &base_final),
                &format!("{c2}"),
                (&calls2, &t2.final_original),
            ) {
                return (base, Some(d), stats);
            }
        } else {
            return (
                base.clone(),
                Some(Discrepancy {
                    props: vec!["C18"],
                    at: "generic swap: construction".into(),
                    expected: "constructs like the base".into(),
                    observed: format!("{:?} [transformed: {c2}]", t2.build),
                }),
                stats,
            );
        }
    }

    (base, None, stats)
}
