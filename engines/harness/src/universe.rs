//! The fixed universe of mocked traits used by the dynmock engine, the callback context (event log, fault
//! injection) and the typed chain walker which drives the *real* builder API from a run-time description.

use std::sync::{Arc, Mutex, MutexGuard};

use unimock::build::{
    DefineMultipleResponses, DefineResponse, QuantifiedResponse, Quantify, QuantifyReturnValue,
};
use unimock::output::Owning;
use unimock::private::{Continuation, Eval, Matching, MismatchReporter};
use unimock::property::{AtLeast, Exact, InAnyOrder, InOrder, Ordering};
use unimock::verif::DynClause;
use unimock::*;

use crate::case::*;

// ------------------------------------------------------------------------------------------------
// value encoding

pub const V_RET: u32 = 1_000_000;
pub const V_ANS: u32 = 2_000_000;
pub const V_REAL: u32 = 3_000_000;
pub const V_DEFAULT: u32 = 4_000_000;

pub fn ret_value(uid: usize, seg: usize) -> u32 {
    V_RET + (uid * 16 + seg) as u32
}
pub fn ans_value(uid: usize, seg: usize) -> u32 {
    V_ANS + (uid * 16 + seg) as u32
}
pub fn real_value(method: MethodId, args: &[u8]) -> u32 {
    V_REAL + (method.idx() * 100 + method.arg_code(args)) as u32
}
pub fn default_value(method: MethodId, args: &[u8]) -> u32 {
    V_DEFAULT + (method.idx() * 100 + method.arg_code(args)) as u32
}

// ------------------------------------------------------------------------------------------------
// callback context

#[derive(Clone, Debug, PartialEq, Eq)]
pub enum Event {
    Answer {
        uid: usize,
        seg: usize,
        args: Vec<u8>,
    },
    Real {
        method: MethodId,
        args: Vec<u8>,
    },
    DefaultBody {
        method: MethodId,
        args: Vec<u8>,
    },
    /// a nested call made by a real function / default body returned this value
    Nested(u32),
}

pub const N_STATIC_ANS: usize = 8;

pub struct Ctx {
    pub events: Vec<Event>,
    pub inject: Option<Inject>,
    pub answer_map: [Option<(usize, usize)>; N_STATIC_ANS],
    pub matcher_calls: u64,
    pub matcher_calls_diag: u64,
}

pub static CTX: Mutex<Ctx> = Mutex::new(Ctx {
    events: Vec::new(),
    inject: None,
    answer_map: [None; N_STATIC_ANS],
    matcher_calls: 0,
    matcher_calls_diag: 0,
});

pub fn ctx() -> MutexGuard<'static, Ctx> {
    CTX.lock().unwrap_or_else(|e| e.into_inner())
}

pub fn ctx_reset() {
    let mut c = ctx();
    c.events.clear();
    c.inject = None;
    c.answer_map = [None; N_STATIC_ANS];
    INJECT_ARMED.store(false, std::sync::atomic::Ordering::SeqCst);
}

/// true while `Ctx::inject` is Some: lets the callbacks skip the context lock in the common case
pub static INJECT_ARMED: std::sync::atomic::AtomicBool = std::sync::atomic::AtomicBool::new(false);
pub static MATCHER_CALLS: std::sync::atomic::AtomicU64 = std::sync::atomic::AtomicU64::new(0);
/// when false the callbacks do not log events (long stress runs)
pub static LOG_EVENTS: std::sync::atomic::AtomicBool = std::sync::atomic::AtomicBool::new(true);

pub fn arm_inject(inject: Option<Inject>) {
    ctx().inject = inject;
    INJECT_ARMED.store(inject.is_some(), std::sync::atomic::Ordering::SeqCst);
}

/// Payload of injected user panics; distinguishes them from unimock's own `String`/`&str` payloads.
#[derive(Debug, Clone, Copy, PartialEq, Eq)]
pub struct UserPanic(pub &'static str);

fn ev(e: Event) {
    if LOG_EVENTS.load(std::sync::atomic::Ordering::Relaxed) {
        ctx().events.push(e);
    }
}

fn fault(kind: Inject, tag: &'static str) {
    if !INJECT_ARMED.load(std::sync::atomic::Ordering::SeqCst) {
        return;
    }
    let fire = {
        let mut c = ctx();
        if c.inject == Some(kind) {
            c.inject = None;
            INJECT_ARMED.store(false, std::sync::atomic::Ordering::SeqCst);
            true
        } else {
            false
        }
    };
    if fire {
        std::panic::panic_any(UserPanic(tag));
    }
}

pub fn matcher_common(uid: usize, mask: u16, method: MethodId, args: &[u8], diag: bool) -> bool {
    let _ = diag;
    MATCHER_CALLS.fetch_add(1, std::sync::atomic::Ordering::Relaxed);
    fault(Inject::Matcher(uid), "matcher");
    mask & (1 << method.arg_code(args)) != 0
}

pub fn answer_common(uid: usize, seg: usize, args: &[u8]) -> u32 {
    ev(Event::Answer {
        uid,
        seg,
        args: args.to_vec(),
    });
    fault(Inject::Answer, "answer");
    ans_value(uid, seg)
}

fn answer_static(k: usize, args: &[u8]) -> u32 {
    let (uid, seg) = ctx().answer_map[k].expect("static answer function not mapped");
    answer_common(uid, seg, args)
}

// ------------------------------------------------------------------------------------------------
// the traits

#[unimock(api=AMock, unmock_with=[real_a0, real_a1, real_a2, _])]
pub trait A {
    fn a0(&self) -> u32;
    fn a1(&self, x: u8) -> u32;
    fn a2(&self, x: u8, y: u8) -> u32;
    fn a3(&self, x: u8) -> u32;
}

pub fn real_a0(_: &impl A) -> u32 {
    ev(Event::Real {
        method: MethodId::A0,
        args: vec![],
    });
    fault(Inject::Real, "real");
    real_value(MethodId::A0, &[])
}

pub fn real_a1(_: &impl A, x: u8) -> u32 {
    ev(Event::Real {
        method: MethodId::A1,
        args: vec![x],
    });
    fault(Inject::Real, "real");
    real_value(MethodId::A1, &[x])
}

/// Re-enters the mock when y == 2: calls `a1(x)` on its dependency.
pub fn real_a2(dep: &impl A, x: u8, y: u8) -> u32 {
    ev(Event::Real {
        method: MethodId::A2,
        args: vec![x, y],
    });
    fault(Inject::Real, "real");
    if y == 2 {
        let nested = dep.a1(x);
        ev(Event::Nested(nested));
    }
    real_value(MethodId::A2, &[x, y])
}

#[unimock(api=BMock, unmock_with=[_, _, _, real_b2])]
pub trait B {
    fn b0(&self, x: u8) -> u32;
    /// default body which calls the required method on self
    fn b1(&self, x: u8) -> u32 {
        ev(Event::DefaultBody {
            method: MethodId::B1,
            args: vec![x],
        });
        fault(Inject::DefaultBody, "default");
        let nested = self.b0(x);
        ev(Event::Nested(nested));
        default_value(MethodId::B1, &[x])
    }
    /// an associated function without receiver: skipped by the macro, but it occupies a slot of `unmock_with`
    fn version() -> u32
    where
        Self: Sized,
    {
        3
    }
    /// has both a default body and a real function
    fn b2(&self, x: u8) -> u32 {
        ev(Event::DefaultBody {
            method: MethodId::B2,
            args: vec![x],
        });
        fault(Inject::DefaultBody, "default");
        default_value(MethodId::B2, &[x])
    }
}

pub fn real_b2(_: &impl B, x: u8) -> u32 {
    ev(Event::Real {
        method: MethodId::B2,
        args: vec![x],
    });
    fault(Inject::Real, "real");
    real_value(MethodId::B2, &[x])
}

#[unimock(api=GMock)]
pub trait G {
    fn g<T: Into<u32> + Copy + core::fmt::Debug + 'static>(&self, x: T) -> u32;
}

/// Hand-written mock API in the style of `Termination::report`: partial by default (hook H4).
pub trait H {
    fn h0(&self, x: u8) -> u32;
    fn h1(&self, x: u8) -> u32;
}

#[allow(non_camel_case_types)]
pub struct H0Fn;
#[allow(non_camel_case_types)]
pub struct H1Fn;

impl MockFn for H0Fn {
    type Inputs<'i> = u8;
    type OutputKind = Owning<u32>;
    type AnswerFn = dyn Fn(&Unimock, u8) -> u32 + Send + Sync;
    fn info() -> MockFnInfo {
        MockFnInfo::new::<Self>()
            .path(&["H", "h0"])
            .verif_partial_by_default()
    }
    fn debug_inputs(x: &u8) -> Box<[Option<String>]> {
        Box::new([Some(format!("{x:?}"))])
    }
}

impl MockFn for H1Fn {
    type Inputs<'i> = u8;
    type OutputKind = Owning<u32>;
    type AnswerFn = dyn Fn(&Unimock, u8) -> u32 + Send + Sync;
    fn info() -> MockFnInfo {
        MockFnInfo::new::<Self>()
            .path(&["H", "h1"])
            .verif_partial_by_default()
    }
    fn debug_inputs(x: &u8) -> Box<[Option<String>]> {
        Box::new([Some(format!("{x:?}"))])
    }
}

pub fn real_h0(_: &Unimock, x: u8) -> u32 {
    ev(Event::Real {
        method: MethodId::H0,
        args: vec![x],
    });
    fault(Inject::Real, "real");
    real_value(MethodId::H0, &[x])
}

impl H for Unimock {
    #[track_caller]
    fn h0(&self, x: u8) -> u32 {
        match unimock::private::eval::<H0Fn>(self, x) {
            Eval::Return(output) => output,
            Eval::Continue(Continuation::Answer(answer_fn), x) => answer_fn(self, x),
            Eval::Continue(Continuation::Unmock, x) => real_h0(self, x),
            Eval::Continue(cont, _) => cont.report(self),
        }
    }
    #[track_caller]
    fn h1(&self, x: u8) -> u32 {
        match unimock::private::eval::<H1Fn>(self, x) {
            Eval::Return(output) => output,
            Eval::Continue(Continuation::Answer(answer_fn), x) => answer_fn(self, x),
            Eval::Continue(cont, _) => cont.report(self),
        }
    }
}

/// Perform a call of the universe on an instance.
pub fn call_method(u: &Unimock, method: MethodId, args: &[u8]) -> u32 {
    match method {
        MethodId::A0 => u.a0(),
        MethodId::A1 => u.a1(args[0]),
        MethodId::A2 => u.a2(args[0], args[1]),
        MethodId::A3 => u.a3(args[0]),
        MethodId::B0 => u.b0(args[0]),
        MethodId::B1 => u.b1(args[0]),
        MethodId::B2 => u.b2(args[0]),
        MethodId::G8 => u.g::<u8>(args[0]),
        MethodId::G16 => u.g::<u16>(args[0] as u16),
        MethodId::H0 => u.h0(args[0]),
        MethodId::H1 => u.h1(args[0]),
    }
}

// ------------------------------------------------------------------------------------------------
// labels: `pat_debug` needs &'static str

macro_rules! labels {
    ($($n:literal),*) => { pub static LABELS: &[&str] = &[$(concat!("(P", $n, ")")),*]; };
}
labels!(
    0, 1, 2, 3, 4, 5, 6, 7, 8, 9, 10, 11, 12, 13, 14, 15, 16, 17, 18, 19, 20, 21, 22, 23, 24, 25,
    26, 27, 28, 29, 30, 31, 32, 33, 34, 35, 36, 37, 38, 39, 40, 41, 42, 43, 44, 45, 46, 47, 48, 49,
    50, 51, 52, 53, 54, 55, 56, 57, 58, 59, 60, 61, 62, 63, 64, 65, 66, 67, 68, 69, 70, 71, 72, 73,
    74, 75, 76, 77, 78, 79, 80, 81, 82, 83, 84, 85, 86, 87, 88, 89, 90, 91, 92, 93, 94, 95
);
pub const MAX_PATTERNS: usize = 96;
pub const PAT_FILE: &str = "case";

// ------------------------------------------------------------------------------------------------
// the typed chain walker

/// `at_least_times` only exists for `InAnyOrder`; this dispatches on the ordering marker.
pub trait OrdHelper: Ordering + Copy + 'static {
    const ORDERED: bool;
}
impl OrdHelper for InAnyOrder {
    const ORDERED: bool = false;
}
impl OrdHelper for InOrder {
    const ORDERED: bool = true;
}

/// Where a finished builder chain goes: pushed as a clause (top-level forms), or dropped (inside `stub`).
pub enum Outlet<'o, 'p> {
    Push(&'o mut DynClause<'p>),
    Drop,
}

macro_rules! walker {
    ($modname:ident, $inputs:ty, ($($arg:ident),*), $inputs_pat:pat) => {
        pub mod $modname {
            use super::*;

            pub type AnsFn = dyn Fn(&Unimock $(, walker!(@u8 $arg))*) -> u32 + Send + Sync;

            fn ans_static<const K: usize>(_: &Unimock $(, $arg: u8)*) -> u32 {
                answer_static(K, &[$($arg),*])
            }

            static ANS: [&AnsFn; N_STATIC_ANS] = [
                &ans_static::<0>, &ans_static::<1>, &ans_static::<2>, &ans_static::<3>,
                &ans_static::<4>, &ans_static::<5>, &ans_static::<6>, &ans_static::<7>,
            ];

            /// Bounds shared by every mock fn of this arity in the universe
            pub trait Fx: for<'i> MockFn<Inputs<'i> = $inputs, OutputKind = Owning<u32>, AnswerFn = AnsFn> {}
            impl<T> Fx for T where T: for<'i> MockFn<Inputs<'i> = $inputs, OutputKind = Owning<u32>, AnswerFn = AnsFn> {}

            fn matcher<F: Fx>(p: &PatternSpec) -> impl Fn(&mut Matching<F>) {
                let uid = p.uid;
                let mask = p.mask;
                let method = p.method;
                let kind = p.matcher;
                move |m: &mut Matching<F>| {
                    if kind != MatcherKind::NoFunc {
                        m.func(move |inputs: &$inputs, reporter: &mut MismatchReporter| {
                            #[allow(unused_parens)]
                            let $inputs_pat = *inputs;
                            let args: Vec<u8> = vec![$($arg),*];
                            let diag = reporter.enabled();
                            let ok = matcher_common(uid, mask, method, &args, diag);
                            if !ok && diag {
                                reporter.pat_fail(0, Some(format!("{args:?}")), Some(format!("mask {mask:#b}")));
                            }
                            ok
                        });
                    }
                    if kind != MatcherKind::NoDebug {
                        m.pat_debug(LABELS[uid], PAT_FILE, uid as u32);
                    }
                }
            }

            /// A top-level `some_call` / `each_call` / `next_call` clause
            pub fn single<'p, F: Fx>(mk: &dyn Fn() -> F, p: &PatternSpec, out: &mut DynClause<'p>) {
                match p.kind {
                    PatKind::SomeCall => first(mk().some_call(&matcher::<F>(p)), p, &mut Outlet::Push(out)),
                    PatKind::NextCall => first(mk().next_call(&matcher::<F>(p)), p, &mut Outlet::Push(out)),
                    PatKind::EachCall => respond(mk().each_call(&matcher::<F>(p)), p, 0, &mut Outlet::Push(out)),
                    PatKind::InStub => panic!("generator bug: InStub pattern outside of a stub"),
                }
            }

            /// A `stub(|each| ..)` clause
            pub fn stub<'p, F: Fx>(mk: &dyn Fn() -> F, pats: &[PatternSpec], out: &mut DynClause<'p>) {
                let each = mk().stub(|each| {
                    for p in pats {
                        let d = each.call(&matcher::<F>(p));
                        if p.segs.is_empty() {
                            // a pattern that was never given a response
                            drop(d);
                        } else {
                            respond(d, p, 0, &mut Outlet::Drop);
                        }
                    }
                });
                out.push(each);
            }

            fn finish<'o, 'p, C: Clause + 'p>(clause: C, out: &mut Outlet<'o, 'p>) {
                match out {
                    Outlet::Push(dyn_clause) => dyn_clause.push(clause),
                    Outlet::Drop => drop(clause),
                }
            }

            /// first response of `some_call` / `next_call`: may use the single-use `returns`
            fn first<'o, 'p, F: Fx, O: OrdHelper>(d: DefineResponse<'p, F, O>, p: &PatternSpec, out: &mut Outlet<'o, 'p>)
            where
                QuantifyReturnValue<'p, F, u32, O>: AtLeastQrv<'p, F, O>,
                Quantify<'p, F, O>: AtLeastQ<'p, F, O>,
            {
                let seg = p.segs[0];
                match seg.resp {
                    Resp::Ret => {
                        let q: QuantifyReturnValue<'p, F, u32, O> = d.returns(ret_value(p.uid, 0));
                        match seg.quant {
                            Quant::None => finish(q, out),
                            Quant::Once => after_exact(q.once(), p, 1, out),
                            Quant::N(n) => after_exact(q.n_times(n), p, 1, out),
                            Quant::AtLeast(n) => finish(q.at_least_qrv(n), out),
                        }
                    }
                    Resp::RetDefault => quantify(d.returns_default(), p, 0, out),
                    Resp::Answer(k) => {
                        ctx().answer_map[k] = Some((p.uid, 0));
                        quantify(d.answers(ANS[k]), p, 0, out)
                    }
                    Resp::AnswerArc => quantify(d.answers_arc(arc_answer(p.uid, 0)), p, 0, out),
                    Resp::Panics => quantify(d.panics(panic_msg(p.uid, 0)), p, 0, out),
                    Resp::Unmock => quantify(d.applies_unmocked(), p, 0, out),
                    Resp::DefaultImpl => quantify(d.applies_default_impl(), p, 0, out),
                }
            }

            fn arc_answer(uid: usize, seg: usize) -> Arc<AnsFn> {
                Arc::new(move |_: &Unimock $(, $arg: u8)*| answer_common(uid, seg, &[$($arg),*]))
            }

            /// response number `i` in the `DefineMultipleResponses` state
            fn respond<'o, 'p, F: Fx, O: OrdHelper>(d: DefineMultipleResponses<'p, F, O>, p: &PatternSpec, i: usize, out: &mut Outlet<'o, 'p>)
            where
                QuantifyReturnValue<'p, F, u32, O>: AtLeastQrv<'p, F, O>,
                Quantify<'p, F, O>: AtLeastQ<'p, F, O>,
            {
                let seg = p.segs[i];
                let q = match seg.resp {
                    Resp::Ret => d.returns(ret_value(p.uid, i)),
                    Resp::RetDefault => d.returns_default(),
                    Resp::Answer(k) => {
                        ctx().answer_map[k] = Some((p.uid, i));
                        d.answers(ANS[k])
                    }
                    Resp::AnswerArc => d.answers_arc(arc_answer(p.uid, i)),
                    Resp::Panics => d.panics(panic_msg(p.uid, i)),
                    Resp::Unmock => d.applies_unmocked(),
                    Resp::DefaultImpl => d.applies_default_impl(),
                };
                quantify(q, p, i, out)
            }

            fn quantify<'o, 'p, F: Fx, O: OrdHelper>(q: Quantify<'p, F, O>, p: &PatternSpec, i: usize, out: &mut Outlet<'o, 'p>)
            where
                QuantifyReturnValue<'p, F, u32, O>: AtLeastQrv<'p, F, O>,
                Quantify<'p, F, O>: AtLeastQ<'p, F, O>,
            {
                match p.segs[i].quant {
                    Quant::None => finish(q, out),
                    Quant::Once => after_exact(q.once(), p, i + 1, out),
                    Quant::N(n) => after_exact(q.n_times(n), p, i + 1, out),
                    Quant::AtLeast(n) => finish(q.at_least_q(n), out),
                }
            }

            fn after_exact<'o, 'p, F: Fx, O: OrdHelper>(q: QuantifiedResponse<'p, F, O, Exact>, p: &PatternSpec, next: usize, out: &mut Outlet<'o, 'p>)
            where
                QuantifyReturnValue<'p, F, u32, O>: AtLeastQrv<'p, F, O>,
                Quantify<'p, F, O>: AtLeastQ<'p, F, O>,
            {
                if next >= p.segs.len() {
                    finish(q, out)
                } else {
                    respond(q.then(), p, next, out)
                }
            }

            /// `at_least_times` dispatch (only defined for `InAnyOrder` in the real API)
            pub trait AtLeastQ<'p, F: MockFn, O> {
                fn at_least_q(self, n: usize) -> QuantifiedResponse<'p, F, O, AtLeast>;
            }
            impl<'p, F: Fx> AtLeastQ<'p, F, InAnyOrder> for Quantify<'p, F, InAnyOrder> {
                fn at_least_q(self, n: usize) -> QuantifiedResponse<'p, F, InAnyOrder, AtLeast> {
                    self.at_least_times(n)
                }
            }
            impl<'p, F: Fx> AtLeastQ<'p, F, InOrder> for Quantify<'p, F, InOrder> {
                fn at_least_q(self, _: usize) -> QuantifiedResponse<'p, F, InOrder, AtLeast> {
                    panic!("generator bug: at_least_times on an ordered pattern does not type check in the real API")
                }
            }
            pub trait AtLeastQrv<'p, F: MockFn, O> {
                fn at_least_qrv(self, n: usize) -> QuantifiedResponse<'p, F, O, AtLeast>;
            }
            impl<'p, F: Fx> AtLeastQrv<'p, F, InAnyOrder> for QuantifyReturnValue<'p, F, u32, InAnyOrder> {
                fn at_least_qrv(self, n: usize) -> QuantifiedResponse<'p, F, InAnyOrder, AtLeast> {
                    self.at_least_times(n)
                }
            }
            impl<'p, F: Fx> AtLeastQrv<'p, F, InOrder> for QuantifyReturnValue<'p, F, u32, InOrder> {
                fn at_least_qrv(self, _: usize) -> QuantifiedResponse<'p, F, InOrder, AtLeast> {
                    panic!("generator bug: at_least_times on an ordered pattern does not type check in the real API")
                }
            }
        }
    };
    (@u8 $arg:ident) => { u8 };
}

pub fn panic_msg(uid: usize, seg: usize) -> String {
    format!("explicit-{uid}-{seg}")
}

walker!(w0, (), (), ());
walker!(w1, u8, (x), (x));
walker!(w2, (u8, u8), (x, y), (x, y));

/// generic method instantiated at u16: inputs are u16, the walker converts
pub mod w16 {
    //! The `u16` instantiation of the generic method has `Inputs = u16`; it gets its own small walker
    //! instance through the same macro with a conversion shim.
    use super::*;

    pub type AnsFn = dyn Fn(&Unimock, u16) -> u32 + Send + Sync;

    pub trait Fx:
        for<'i> MockFn<Inputs<'i> = u16, OutputKind = Owning<u32>, AnswerFn = AnsFn>
    {
    }
    impl<T> Fx for T where
        T: for<'i> MockFn<Inputs<'i> = u16, OutputKind = Owning<u32>, AnswerFn = AnsFn>
    {
    }

    fn matcher<F: Fx>(p: &PatternSpec) -> impl Fn(&mut Matching<F>) {
        let uid = p.uid;
        let mask = p.mask;
        let method = p.method;
        move |m: &mut Matching<F>| {
            m.func(move |inputs: &u16, reporter: &mut MismatchReporter| {
                let args = vec![*inputs as u8];
                let diag = reporter.enabled();
                let ok = matcher_common(uid, mask, method, &args, diag);
                if !ok && diag {
                    reporter.pat_fail(0, Some(format!("{args:?}")), Some(format!("mask {mask:#b}")));
                }
                ok
            });
            m.pat_debug(LABELS[uid], PAT_FILE, uid as u32);
        }
    }

    /// Only simple shapes are used for the second instantiation: every segment is `returns` or `answers_arc`,
    /// on `each_call`/`some_call`/`next_call` with exact quantifiers.
    pub fn single<'p, F: Fx>(mk: &dyn Fn() -> F, p: &PatternSpec, out: &mut DynClause<'p>) {
        assert!(p.segs.len() == 1, "generator bug: w16 supports one segment");
        let seg = p.segs[0];
        let uid = p.uid;
        let arc: Arc<AnsFn> = Arc::new(move |_: &Unimock, x: u16| answer_common(uid, 0, &[x as u8]));
        match (p.kind, seg.resp, seg.quant) {
            (PatKind::EachCall, Resp::Ret, Quant::None) => {
                out.push(mk().each_call(&matcher::<F>(p)).returns(ret_value(uid, 0)))
            }
            (PatKind::EachCall, Resp::Ret, Quant::N(n)) => out.push(
                mk().each_call(&matcher::<F>(p))
                    .returns(ret_value(uid, 0))
                    .n_times(n),
            ),
            (PatKind::EachCall, Resp::AnswerArc, Quant::None) => {
                out.push(mk().each_call(&matcher::<F>(p)).answers_arc(arc))
            }
            (PatKind::SomeCall, Resp::Ret, Quant::None) => {
                out.push(mk().some_call(&matcher::<F>(p)).returns(ret_value(uid, 0)))
            }
            (PatKind::SomeCall, Resp::Ret, Quant::N(n)) => out.push(
                mk().some_call(&matcher::<F>(p))
                    .returns(ret_value(uid, 0))
                    .n_times(n),
            ),
            (PatKind::NextCall, Resp::Ret, Quant::None) => {
                out.push(mk().next_call(&matcher::<F>(p)).returns(ret_value(uid, 0)))
            }
            (PatKind::NextCall, Resp::Ret, Quant::N(n)) => out.push(
                mk().next_call(&matcher::<F>(p))
                    .returns(ret_value(uid, 0))
                    .n_times(n),
            ),
            other => panic!("generator bug: unsupported w16 shape {other:?}"),
        }
    }
}

/// Is this pattern shape supported for the G16 instantiation
pub fn w16_supported(p: &PatternSpec) -> bool {
    p.segs.len() == 1
        && p.matcher == MatcherKind::Mask
        && matches!(
            (p.kind, p.segs[0].resp, p.segs[0].quant),
            (PatKind::EachCall, Resp::Ret, Quant::None)
                | (PatKind::EachCall, Resp::Ret, Quant::N(_))
                | (PatKind::EachCall, Resp::AnswerArc, Quant::None)
                | (PatKind::SomeCall, Resp::Ret, Quant::None)
                | (PatKind::SomeCall, Resp::Ret, Quant::N(_))
                | (PatKind::NextCall, Resp::Ret, Quant::None)
                | (PatKind::NextCall, Resp::Ret, Quant::N(_))
        )
}

fn push_single<'p>(p: &PatternSpec, out: &mut DynClause<'p>) {
    match p.method {
        MethodId::A0 => w0::single(&|| AMock::a0, p, out),
        MethodId::A1 => w1::single(&|| AMock::a1, p, out),
        MethodId::A2 => w2::single(&|| AMock::a2, p, out),
        MethodId::A3 => w1::single(&|| AMock::a3, p, out),
        MethodId::B0 => w1::single(&|| BMock::b0, p, out),
        MethodId::B1 => w1::single(&|| BMock::b1, p, out),
        MethodId::B2 => w1::single(&|| BMock::b2, p, out),
        MethodId::G8 => w1::single(&|| GMock::g.with_types::<u8>(), p, out),
        MethodId::G16 => w16::single(&|| GMock::g.with_types::<u16>(), p, out),
        MethodId::H0 => w1::single(&|| H0Fn, p, out),
        MethodId::H1 => w1::single(&|| H1Fn, p, out),
    }
}

fn push_stub<'p>(method: MethodId, pats: &[PatternSpec], out: &mut DynClause<'p>) {
    match method {
        MethodId::A0 => w0::stub(&|| AMock::a0, pats, out),
        MethodId::A1 => w1::stub(&|| AMock::a1, pats, out),
        MethodId::A2 => w2::stub(&|| AMock::a2, pats, out),
        MethodId::A3 => w1::stub(&|| AMock::a3, pats, out),
        MethodId::B0 => w1::stub(&|| BMock::b0, pats, out),
        MethodId::B1 => w1::stub(&|| BMock::b1, pats, out),
        MethodId::B2 => w1::stub(&|| BMock::b2, pats, out),
        MethodId::G8 => w1::stub(&|| GMock::g.with_types::<u8>(), pats, out),
        MethodId::G16 => panic!("generator bug: stub on G16"),
        MethodId::H0 => w1::stub(&|| H0Fn, pats, out),
        MethodId::H1 => w1::stub(&|| H1Fn, pats, out),
    }
}

/// Build the clause for a tree. Tuples are built with the *real* tuple impls (arity 2..=16);
/// each element of a tuple is a `DynClause` holding the real clause(s) of that subtree.
pub fn build_clause(tree: &ClauseTree) -> DynClause<'static> {
    let mut out = DynClause::new();
    match tree {
        ClauseTree::Unit => out.push(()),
        ClauseTree::Single(p) => push_single(p, &mut out),
        ClauseTree::Stub(method, pats) => push_stub(*method, pats, &mut out),
        ClauseTree::Tuple(items) => {
            let mut it = items.iter().map(build_clause);
            macro_rules! tup {
                ($($n:tt)*) => { out.push(($({ let _ = $n; it.next().unwrap() },)*)) };
            }
            match items.len() {
                2 => tup!(0 1),
                3 => tup!(0 1 2),
                4 => tup!(0 1 2 3),
                5 => tup!(0 1 2 3 4),
                6 => tup!(0 1 2 3 4 5),
                7 => tup!(0 1 2 3 4 5 6),
                8 => tup!(0 1 2 3 4 5 6 7),
                9 => tup!(0 1 2 3 4 5 6 7 8),
                10 => tup!(0 1 2 3 4 5 6 7 8 9),
                11 => tup!(0 1 2 3 4 5 6 7 8 9 10),
                12 => tup!(0 1 2 3 4 5 6 7 8 9 10 11),
                13 => tup!(0 1 2 3 4 5 6 7 8 9 10 11 12),
                14 => tup!(0 1 2 3 4 5 6 7 8 9 10 11 12 13),
                15 => tup!(0 1 2 3 4 5 6 7 8 9 10 11 12 13 14),
                16 => tup!(0 1 2 3 4 5 6 7 8 9 10 11 12 13 14 15),
                n => panic!("generator bug: tuple arity {n}"),
            }
        }
    }
    out
}
