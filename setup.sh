#!/bin/sh
# Builds every engine once, offline. Checks rebuild incrementally from /repo's working tree anyway.
set -e
cd "$(dirname "$0")"
exec ./check --setup
